#!/bin/bash
# Runs the repository's own suite (hooks off) and checks that every test in BASELINE.stable_pass passes.
# usage: tools/baseline.sh [repo-dir]
REPO="${1:-/repo}"
cd "$REPO" || exit 2
OUT="$(mktemp)"
CARGO_NET_OFFLINE=true cargo test --workspace --no-fail-fast --offline >"$OUT" 2>&1
python3 - "$OUT" <<'PY'
import json, re, sys
out = open(sys.argv[1]).read()
base = json.load(open('/root/.vp/BASELINE.json'))
ok = set(); failed = set()
cur = None
for line in out.splitlines():
    m = re.match(r'\s*Running (?:unittests )?(\S+) \((\S+)\)', line)
    if m:
        path = m.group(2)
        cur = (m.group(1), path)
        continue
    m = re.match(r'test (\S+) \.\.\. (ok|FAILED|ignored)', line)
    if m and cur:
        name, res = m.group(1), m.group(2)
        (ok if res == 'ok' else failed).add(name)
missing = []
for t in base['stable_pass']:
    # names look like crate::[bin/..::]module::test ; match by the suffix after the binary part
    parts = t.split('::')
    cands = ['::'.join(parts[i:]) for i in range(1, len(parts))]
    if not any(c in ok for c in cands):
        missing.append(t)
print(f"passed={len(ok)} failed={len(failed)} stable_pass={len(base['stable_pass'])} missing_from_pass={len(missing)}")
for m in missing: print("  NOT PASSING:", m)
sys.exit(1 if missing else 0)
PY
RC=$?
rm -f "$OUT"
exit $RC
