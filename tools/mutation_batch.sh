#!/bin/bash
# For `vp run --with-repo -- tools/mutation_batch.sh <patch>:<Cxx>[,<Cxx>...] ...`
# Applies each patch to the run's private snapshot of /repo ($VP_RUN_REPO), points the checks at it with
# PATRONUS_SRC, prints one summary block per patch, and reverts. Never touches /repo itself.
REPO="${VP_RUN_REPO:?needs vp run --with-repo}"
export PATRONUS_SRC="$REPO"
export PV_ROOT="$(pwd)"
for spec in "$@"; do
  patch="${spec%%:*}"; checks="${spec#*:}"
  echo "### $(basename "$patch")"
  if ! git -C "$REPO" apply "$patch"; then echo "  patch does not apply"; continue; fi
  for id in ${checks//,/ }; do
    START=$(date +%s)
    OUT="$(./check "$id" quick 2>&1)"; RC=$?
    echo "== $id rc=$RC ($(( $(date +%s) - START ))s)"
    echo "$OUT" | grep -E "VIOLATION|signature|HARNESS|WATCHDOG" | head -4
  done
  git -C "$REPO" checkout -- .
done
