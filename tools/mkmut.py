#!/usr/bin/env python3
"""mkmut.py <out.diff> <file relative to /repo> <old> <new> [<file> <old> <new> ...]
Creates a patch by exact string replacement (each `old` must occur exactly once) without leaving
/repo modified."""
import subprocess, sys
out = sys.argv[1]
args = sys.argv[2:]
assert len(args) % 3 == 0
subprocess.check_call(['git', '-C', '/repo', 'diff', '--quiet'])
try:
    for i in range(0, len(args), 3):
        f, old, new = args[i:i+3]
        p = '/repo/' + f
        s = open(p).read()
        if s.count(old) != 1:
            print(f"'{old[:40]}' occurs {s.count(old)} times in {f}", file=sys.stderr); sys.exit(1)
        open(p, 'w').write(s.replace(old, new))
    d = subprocess.check_output(['git', '-C', '/repo', 'diff'])
    open(out, 'wb').write(d)
finally:
    subprocess.check_call(['git', '-C', '/repo', 'checkout', '--', '.'])
print("wrote", out)
