#!/bin/bash
# usage: tools/try_mutation.sh <patch.diff> <Cxx> [<Cxx>...]
# Applies a patch to /repo's working tree, runs the quick checks, and always reverts.
PATCH="$(realpath "$1")"; shift
cd /repo || exit 2
if ! git diff --quiet; then echo "repo working tree not clean"; exit 2; fi
if ! git apply "$PATCH"; then echo "patch does not apply"; exit 2; fi
trap 'git -C /repo checkout -- . ; git -C /repo clean -fdq -e target' EXIT
for id in "$@"; do
  START=$(date +%s)
  OUT="$(cd /verif && ./check "$id" quick 2>&1)"
  RC=$?
  END=$(date +%s)
  echo "== $id rc=$RC ($((END-START))s)"
  echo "$OUT" | grep -E "VIOLATION|signature|HARNESS" | head -6
done
