#!/bin/bash
# usage: tools/seed_recheck.sh <name under /verif/seeded> [patch file] -- <check id>...
# Applies the stored patch to /repo, runs the given quick checks as they are now, reverts /repo and
# appends the outcome to the seed's recheck.log (used after a check was strengthened).
NAME="$1"; shift
PATCH="/verif/seeded/$NAME/patch.diff"
if [ "$1" != "--" ]; then PATCH="$1"; shift; fi
shift
LOG="/verif/seeded/$NAME/recheck.log"
cd /repo || exit 2
git diff --quiet || { echo "/repo not clean"; exit 2; }
git apply "$PATCH" || { echo "patch does not apply" | tee -a "$LOG"; exit 2; }
trap 'git -C /repo checkout -- . ; git -C /repo clean -fdq -e target' EXIT
echo "== recheck $(date -u +%FT%TZ) verif=$(git -C /verif rev-parse --short HEAD) repo=$(git -C /repo rev-parse --short HEAD) patch=$(basename "$PATCH")" | tee -a "$LOG"
for id in "$@"; do
  START=$(date +%s)
  R="$(cd /verif && ./check "$id" quick 2>&1)"; RC=$?
  echo "== check $id rc=$RC ($(( $(date +%s) - START ))s)" | tee -a "$LOG"
  echo "$R" | grep -E "VIOLATION|signature|HARNESS|WATCHDOG" | head -6 | tee -a "$LOG"
done
