#!/bin/bash
# usage: tools/seed_eval.sh <seed dir, e.g. /tmp/seed/C01> <name under /verif/seeded> <check id> [<check id>...]
# 1. confirms in the agent's scratch worktree that the patch compiles, keeps the pinned suite green,
#    and that the demonstration fails with the patch and passes without it;
# 2. applies the patch to /repo, runs the given quick checks, and reverts /repo;
# 3. stores patch, demo and meta under /verif/seeded/<name>/.
SD="$1"; NAME="$2"; shift 2
WT="$SD/wt"
OUT="/verif/seeded/$NAME"
mkdir -p "$OUT"
LOG="$OUT/confirm.log"; : > "$LOG"
say() { echo "$@" | tee -a "$LOG"; }
[ -s "$SD/patch.diff" ] || { say "no patch"; exit 2; }
# --- 1. confirm in the scratch worktree
cd "$WT" || exit 2
git checkout -q -- . ; git clean -fdq -e target
if ! git apply "$SD/patch.diff"; then say "patch does not apply to the worktree"; exit 2; fi
say "== pinned suite with the patch (scratch worktree)"
/verif/tools/baseline.sh "$WT" 2>&1 | tail -3 | tee -a "$LOG"
DEMO=$(ls "$SD"/demo/*.rs 2>/dev/null | head -1)
if [ -n "$DEMO" ]; then
  B=$(basename "$DEMO" .rs)
  CRATE=patronus
  grep -qi "patronus-dse\|patronus_dse" "$DEMO" && CRATE=patronus-dse
  grep -qi "patronus-egraphs\|patronus_egraphs" "$DEMO" && CRATE=patronus-egraphs
  mkdir -p "$WT/$CRATE/tests"; cp "$DEMO" "$WT/$CRATE/tests/"
  say "== demo WITH patch (expected to fail)"
  (cd "$WT" && PATRONUS_TEST_SOLVER=z3 cargo test -p $CRATE --offline --test "$B" 2>&1 | grep -E "^test result|^test .*(ok|FAILED)$" | tail -12) | tee -a "$LOG"
  git apply -R "$SD/patch.diff"
  say "== demo WITHOUT patch (expected to pass)"
  (cd "$WT" && PATRONUS_TEST_SOLVER=z3 cargo test -p $CRATE --offline --test "$B" 2>&1 | grep -E "^test result|^test .*(ok|FAILED)$" | tail -12) | tee -a "$LOG"
  rm -f "$WT/$CRATE/tests/$B.rs"
  git apply "$SD/patch.diff"
else
  say "no demo .rs file found"
fi
# --- 2. run my checks against /repo with the patch
cd /repo || exit 2
if ! git diff --quiet; then say "/repo not clean"; exit 2; fi
if ! git apply "$SD/patch.diff"; then say "patch does not apply to /repo"; exit 2; fi
trap 'git -C /repo checkout -- . ; git -C /repo clean -fdq -e target' EXIT
for id in "$@"; do
  START=$(date +%s)
  R="$(cd /verif && ./check "$id" quick 2>&1)"; RC=$?
  say "== check $id rc=$RC ($(( $(date +%s) - START ))s)"
  echo "$R" | grep -E "VIOLATION|signature|HARNESS|WATCHDOG" | head -6 | tee -a "$LOG"
done
# --- 3. store
cp "$SD/patch.diff" "$OUT/patch.diff"
rm -rf "$OUT/demo"; cp -r "$SD/demo" "$OUT/demo" 2>/dev/null
cp "$SD/meta.json" "$OUT/meta.agent.json" 2>/dev/null
