#!/bin/bash
# Runs every registered quick (or $1=thorough) check once and prints one line per check.
TIER="${1:-quick}"
cd "$(dirname "$0")/.." || exit 2
./check --build || exit 2
for id in $(python3 -c "import json;print(' '.join(c['property_id'] for c in json.load(open('MANIFEST.json'))['checks']))"); do
  START=$(date +%s.%N)
  OUT="$(./check "$id" "$TIER" 2>&1)"; RC=$?
  END=$(date +%s.%N)
  printf "%s rc=%s %.1fs  %s\n" "$id" "$RC" "$(echo "$END - $START" | bc)" "$(echo "$OUT" | grep -E "^C[0-9]+ (quick|thorough):" | sed 's/^[^:]*: //')"
  if [ "$RC" != "0" ]; then echo "$OUT" | grep -E "VIOLATION|signature|HARNESS|WATCHDOG" | head -5; fi
done
