#!/bin/bash
# Diagnostic (not a registered check): which lines of /repo's crates does the quick tier execute?
# Builds the harness with -C instrument-coverage (nightly, llvm-tools) into /root/cov/target, runs
# every check at PV_SCALE (default 0.25) with a private PV_ROOT so that /verif/evidence is untouched,
# merges the profiles and prints, per source file of patronus / patronus-dse / patronus-egraphs,
# the line coverage and the uncovered line ranges (written to /root/cov/uncovered.txt).
# usage: tools/coverage.sh [Cxx ...]
set -u
OUT=/root/cov
TC="$HOME/.rustup/toolchains/nightly-x86_64-unknown-linux-gnu"
BIN="$TC/lib/rustlib/x86_64-unknown-linux-gnu/bin"
IDS="${*:-C01 C02 C03 C04 C05 C06 C07 C08 C09 C10 C11 C12 C13 C14 C15 C16 C17 C18 C19 C20}"
HERE="$(cd "$(dirname "$0")/.." && pwd)"
cd "$HERE/harness" || exit 2
EXTRA=()
SRC="${PATRONUS_SRC:-/repo}"
if [ -n "${PATRONUS_SRC:-}" ]; then
  EXTRA=(--config "paths=[\"$PATRONUS_SRC/patronus\",\"$PATRONUS_SRC/patronus-dse\",\"$PATRONUS_SRC/patronus-egraphs\"]")
fi
RUSTFLAGS="-C instrument-coverage" CARGO_NET_OFFLINE=true cargo +nightly build --release --offline --target-dir "$OUT/target" "${EXTRA[@]}" 2>&1 | tail -2
mkdir -p "$OUT/pvroot" "$OUT/prof"
cp "$HERE/known_findings.jsonl" "$OUT/pvroot/"
rm -rf "$OUT/pvroot/corpus"; cp -r "$HERE/corpus" "$OUT/pvroot/corpus"
for id in $IDS; do
  rm -f "$OUT/prof/$id-"*.profraw
  START=$(date +%s)
  LLVM_PROFILE_FILE="$OUT/prof/$id-%p-%m.profraw" PV_ROOT="$OUT/pvroot" PV_BIN_DIR="$OUT/target/release" \
    PV_SCALE="${PV_SCALE:-0.25}" "$OUT/target/release/pvcheck" "$id" quick > "$OUT/$id.out" 2>&1
  echo "$id rc=$? $(( $(date +%s) - START ))s $(ls "$OUT/prof/$id-"*.profraw 2>/dev/null | wc -l) profiles"
  "$BIN/llvm-profdata" merge -sparse "$OUT/prof/$id-"*.profraw -o "$OUT/prof/$id.profdata" 2>/dev/null && rm -f "$OUT/prof/$id-"*.profraw
done
"$BIN/llvm-profdata" merge -sparse "$OUT"/prof/*.profdata -o "$OUT/all.profdata"
"$BIN/llvm-cov" export --format=lcov --instr-profile "$OUT/all.profdata" "$OUT/target/release/pvcheck" \
  --ignore-filename-regex='(registry|rustc|/harness/)' > "$OUT/all.lcov" 2>/dev/null
python3 - "$OUT/all.lcov" > "$OUT/uncovered.txt" <<'PY'
import sys, re
cur = None; data = {}
for line in open(sys.argv[1]):
    line = line.strip()
    if line.startswith('SF:'): cur = line[3:]; data[cur] = {}
    elif line.startswith('DA:') and cur:
        n, c = line[3:].split(',')[:2]; data[cur][int(n)] = max(int(c), data[cur].get(int(n), 0))
for f in sorted(data):
    d = data[f]
    if not d or '/patronus' not in f: continue
    unc = sorted(n for n, c in d.items() if c == 0)
    print(f"{f}: {len(d)-len(unc)}/{len(d)} lines ({100*(len(d)-len(unc))//len(d)}%)")
    rng = [];
    for n in unc:
        if rng and n <= rng[-1][1] + 1: rng[-1][1] = n
        else: rng.append([n, n])
    print("   uncovered:", ' '.join(f"{a}-{b}" if a != b else str(a) for a, b in rng))
PY
grep -c . "$OUT/uncovered.txt"
