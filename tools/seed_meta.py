#!/usr/bin/env python3
"""Composes /verif/seeded/<name>/meta.json from the agent's meta and my confirm.log."""
import json, os, re, sys
root = '/verif/seeded'
for name in sorted(os.listdir(root)):
    d = os.path.join(root, name)
    if not os.path.isdir(d): continue
    # only seeds evaluated in this session have a confirm.log; older meta.json files are left alone
    if not os.path.exists(os.path.join(d, 'confirm.log')): continue
    agent = {}
    try: agent = json.load(open(os.path.join(d, 'meta.agent.json')))
    except Exception: pass
    log = open(os.path.join(d, 'confirm.log')).read() if os.path.exists(os.path.join(d, 'confirm.log')) else ''
    suite = re.search(r'passed=(\d+) failed=(\d+) stable_pass=(\d+) missing_from_pass=(\d+)', log)
    parts = log.split('== demo WITHOUT patch')
    with_part = parts[0].split('== demo WITH patch')[-1] if '== demo WITH patch' in log else ''
    without_part = parts[1].split('== check')[0] if len(parts) > 1 else ''
    checks = []
    for m in re.finditer(r'== check (C\d+) rc=(\d+) \((\d+)s\)\n((?:  signature: .*\n|VIOLATION .*\n|WATCHDOG.*\n|HARNESS.*\n)*)', log):
        sigs = re.findall(r'signature: (.*)', m.group(4))
        checks.append({'check': m.group(1), 'tier': 'quick', 'exit': int(m.group(2)), 'seconds': int(m.group(3)),
                       'caught': m.group(2) == '1', 'signatures': sigs})
    extra = {}
    try: extra = json.load(open(os.path.join(d, 'notes.json')))
    except Exception: pass
    meta = {
        'property': agent.get('property', name.split('-')[0]),
        'summary': agent.get('summary', ''),
        'needs_to_manifest': agent.get('needs_to_manifest', ''),
        'why_tests_miss_it': agent.get('why_tests_miss_it', ''),
        'origin': 'independent sub-agent given only the property text and a scratch worktree of /repo',
        'confirmed_by_me': {
            'pinned_suite_with_patch': suite.group(0) if suite else 'not run',
            'pinned_suite_ok': bool(suite and suite.group(4) == '0'),
            'demo_with_patch_fails': 'FAILED' in with_part,
            'demo_without_patch_passes': 'test result: ok' in without_part and 'FAILED' not in without_part,
            'how': 'tools/seed_eval.sh: scratch worktree (tools/baseline.sh + demo with/without patch), then git -C /repo apply, ./check <id> quick, git -C /repo checkout -- .',
        },
        'checks_run': checks,
        'caught_by': sorted({c['check'] for c in checks if c['caught']}),
    }
    ov = extra.pop('confirmed_by_me_override', None)
    meta.update(extra)
    if 'caught_by_after_strengthening' in meta:
        meta['caught_by'] = sorted(set(meta['caught_by']) | set(meta['caught_by_after_strengthening']))
    if ov: meta['confirmed_by_me'].update(ov)
    json.dump(meta, open(os.path.join(d, 'meta.json'), 'w'), indent=1)
    print(name, 'caught_by', meta['caught_by'], 'suite_ok', meta['confirmed_by_me']['pinned_suite_ok'],
          'demo', meta['confirmed_by_me']['demo_with_patch_fails'], meta['confirmed_by_me']['demo_without_patch_passes'])
