#!/usr/bin/env python3
"""Validates MANIFEST.json and every evidence file against the schemas in /root/.vp (needs jsonschema:
run with python3-vt)."""
import json, sys, os, glob
import jsonschema
root = os.path.dirname(os.path.dirname(os.path.abspath(__file__)))
ok = True
def check(path, schema):
    global ok
    try:
        jsonschema.validate(json.load(open(path)), json.load(open(schema)))
        print('ok  ', path)
    except Exception as e:
        ok = False
        print('FAIL', path, str(e).splitlines()[0])
check(os.path.join(root, 'MANIFEST.json'), '/root/.vp/MANIFEST.schema.json')
for p in sorted(glob.glob(os.path.join(root, 'evidence', '*.json'))):
    check(p, '/root/.vp/EVIDENCE.schema.json')
props = [json.loads(l)['id'] for l in open(os.path.join(root, 'properties.jsonl')) if l.strip()]
man = json.load(open(os.path.join(root, 'MANIFEST.json')))
claimed = {c['property_id'] for c in man['checks']}
na = {x['property_id'] if isinstance(x, dict) else x for x in man.get('not_applicable', [])}
for p in props:
    if p not in claimed and p not in na:
        ok = False; print('FAIL property neither claimed nor not_applicable:', p)
    if p in claimed and not os.path.exists(os.path.join(root, 'evidence', p + '.json')):
        ok = False; print('FAIL no evidence for', p)
sys.exit(0 if ok else 1)
