#!/usr/bin/env python3
"""Generates /verif/MANIFEST.json from the table below (kept in one place so it stays valid)."""
import json, os, sys

ROOT = os.path.dirname(os.path.dirname(os.path.abspath(__file__)))

# id -> (level, technique, level text, note, design ref)
CHECKS = {
    "C06": ("exploration",
            "exhaustive operator grid + proptest over choice tapes vs independent BigUint evaluator",
            "Generated-input search: an exhaustive operator x width x corner-operand grid plus seeded random expression DAGs, each judged against an independent big-integer implementation of SMT-LIB semantics, including canonicity of the returned value and short-circuit evaluation. Sampling, not proof; the grid is exhaustive within its stated bound.",
            "Trusts the harness' reference evaluator (unit-tested), proptest, rustc. Known baa-rooted defects are listed in known_findings.jsonl.",
            "DESIGN.md 5/C06"),
}

ALL = ["C%02d" % i for i in range(1, 21)]

def main():
    checks = []
    for pid in ALL:
        if pid not in CHECKS:
            continue
        level, technique, text, note, ref = CHECKS[pid]
        checks.append({
            "property_id": pid,
            "quick_cmd": f"./check {pid} quick",
            "thorough_cmd": f"./check {pid} thorough",
            "evidence_file": f"/verif/evidence/{pid}.json",
            "replay_cmd_template": "./check --replay {path}",
            "engine": "pv",
            "level_claimed": {"category": level, "text": text, "design_ref": ref},
            "level_note": note,
            "technique": technique,
        })
    na = [{"property_id": p, "reason": "check under construction in this session (see DESIGN.md 5b build order); not yet claimed"}
          for p in ALL if p not in CHECKS]
    m = {
        "version": 1,
        "setup_cmd": "./check --build",
        "hooks": {
            "guard": "cargo feature verif-hooks (patronus-dse)",
            "enable": "the harness crate /verif/harness depends on /repo/patronus-dse by path with features=[\"verif-hooks\"]; /repo's own workspace never enables it",
            "baseline_off_cmd": "cd /repo && cargo test --workspace --no-fail-fast --offline",
            "source_commits": [],
            "add_only": True,
        },
        "engines": [
            {"name": "pv", "path": "/verif/harness", "serves_properties": sorted(CHECKS.keys()),
             "kind_free_text": "Rust harness: choice-tape generators driven by seeded proptest runners on 16 threads (same decoders reused by cargo-fuzz targets), independent reference evaluator/simulator/SMT front end as oracles, known-findings protocol, replay files"},
        ],
        "checks": checks,
        "not_applicable": na,
        "notes": "All checks: ./check <id> <tier>; exit 0 held / 1 VIOLATION / 2 harness trouble. VERIF_SEED selects the PRNG streams. known_findings.jsonl lists open and fixed findings.",
    }
    with open(os.path.join(ROOT, "MANIFEST.json"), "w") as f:
        json.dump(m, f, indent=1)
        f.write("\n")

if __name__ == "__main__":
    main()
