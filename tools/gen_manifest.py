#!/usr/bin/env python3
"""Generates /verif/MANIFEST.json from the table below (kept in one place so it stays valid)."""
import json, os, sys

ROOT = os.path.dirname(os.path.dirname(os.path.abspath(__file__)))

# id -> (level, technique, level text, note, design ref)
CHECKS = {
    "C01": ("exploration",
            "proptest over choice-tape expression DAGs; metamorphic oracle: reference evaluation of original vs simplified + deep type check",
            "Generated-input search over well-typed expression DAGs (all operators, width/literal boundary classes, rule-shaped operand choices) simplified in three modes; the result must keep the type, type-check node by node and evaluate like the original under every (<=12 symbol bits) or 24 sampled assignments (corner-biased, a third drawing on the literals of the case) in an independent evaluator; for a slice of the sampled cases z3 proposes an assignment under which the two differ, which the same evaluator then judges. Sampling, not proof.",
            "Trusts the harness' reference evaluator and type rules; both sides of the comparison are judged by it, never by patronus' evaluator.",
            "DESIGN.md 5/C01"),
    "C02": ("exploration",
            "proptest over generated systems x bounds x solver profiles x modes; differential oracle: explicit-state reachability of the reference simulator; real SmtLibSolverCtx against the reference solver shim",
            "patronus::mc::bmc runs through its real text protocol against a strict reference solver (own SMT-LIB checker in front of z3, randomised models) under the names bitwuzla/yices-smt2/z3/cvc5; the verdict must equal explicit-state reachability up to the bound for every configuration (3 per system); errors, Unknown and panics fail; witnesses are replayed. Sampling, not proof.",
            "Trusts refsim's semantics and z3 4.8.12's sat/unsat answers on tiny queries (a wrong answer would appear as a mismatch). Each case runs in an isolated worker process.",
            "DESIGN.md 5/C02"),
    "C03": ("exploration",
            "proptest over unsafe systems x engines x solver model seeds; oracle: witness replay in the reference simulator and in patronus' Interpreter",
            "Every ModelCheckResult::Fail witness produced by bmc and pdr under three different solver models is checked for shape (names, order, widths, a value for every input at every step), init agreement, constraints at every step and the exact failed set at the last step by replay in the reference simulator, and driven through patronus::sim::Interpreter. Sampling, not proof.",
            "Trusts refsim. The replay is existential over next-less states, which the witness format cannot carry.",
            "DESIGN.md 5/C03"),
    "C04": ("exploration",
            "proptest over generated systems x depths x entry points; oracle: strict independent SMT-LIB scope/sort checker + evaluation of the script under concrete executions",
            "The script emitted by UnrollSmtEncoding (through a recording SolverContext and the real serializer) is checked strictly (declared/defined exactly once before use, well-sorted) and evaluated under concrete executions of the reference simulator: every per-step symbol (states, inputs, constraints, bad states; outputs when the encoder is created with include_outputs) must have the value of its signal; contexts are padded so that expression ids span several hundred ids. A slice of the scripts (1 in 300) is also sent to the real z3 and cvc5 with the execution pinned: both must accept it and return the reference values (a disagreement is harness trouble, exit 2). Sampling, not proof.",
            "Trusts smtref and refsim.",
            "DESIGN.md 5/C04"),
    "C05": ("exploration",
            "proptest over choice-tape expressions/commands; oracle: independent strict SMT-LIB sort checker + evaluator vs reference evaluator",
            "Every generated command text from serialize_cmd is lexed, sort-checked strictly (1-bit symbols declared Bool) and evaluated by an independent SMT-LIB 2.6 front end; identifiers (generated from a broad alphabet) must read back verbatim and values must equal the reference evaluator's under all/sampled assignments (samples draw on the literals of the case). A slice (1 in 250) is also sent to the real z3 and cvc5, which must accept the text and return the reference value (a disagreement is harness trouble, exit 2). Sampling, not proof.",
            "Trusts smtref (own SMT-LIB reader/checker/evaluator, unit-tested) and refeval.",
            "DESIGN.md 5/C05"),
    "C06": ("exploration",
            "exhaustive operator grid + proptest over choice tapes vs independent BigUint evaluator",
            "Generated-input search: an exhaustive operator x width x corner-operand grid plus seeded random expression DAGs, each judged against an independent big-integer implementation of SMT-LIB semantics, including canonicity of the returned value and short-circuit evaluation. Sampling, not proof; the grid is exhaustive within its stated bound.",
            "Trusts the harness' reference evaluator (unit-tested), proptest, rustc. Known baa-rooted defects are listed in known_findings.jsonl.",
            "DESIGN.md 5/C06"),
    "C07": ("exploration",
            "stateful model-based proptest: operation histories on the Interpreter vs a reference simulator",
            "Generated systems and histories of init/set/step/get/snapshot/restore are executed on patronus::sim::Interpreter and on a reference model built on the independent evaluator; the observable expressions are compared after every operation (in half of the histories only sparsely: some operations without reads, random subsets, so that state kept between two reads can go stale); set also overwrites states; both file-less constructors. Sampling of systems x histories, not proof.",
            "Trusts refeval/refsim. Inputs after restore are re-synchronised by reading them back (the property promises states only).",
            "DESIGN.md 5/C07"),
    "C08": ("exploration",
            "grammar-based btor2 text generator carrying its own semantics; differential oracle vs reference evaluation of the parsed system",
            "Grammar-generated btor2 files (all supported operators, negated references, all constant forms, array init lifting, demoted states) are parsed and every output/bad/constraint/init/next is compared under sampled valuations with the file's own line-by-line semantics computed by the harness; ill-sorted variants must be rejected. Sampling, not proof.",
            "Trusts btorgen's reading of the btor2 format (operator semantics per SMT-LIB) and refeval.",
            "DESIGN.md 5/C08"),
    "C09": ("exploration",
            "proptest round-trip writer->reader with positional equivalence judged by the reference evaluator; all shipped files",
            "Generated systems and every shipped btor2 file are serialized and parsed back into the same Context; counts, types and every function are compared positionally (identical reference or reference-evaluator-equal); explicit names of parsed systems (distinct among inputs+states and among outputs; an output may carry the name of the symbol it labels) must survive another cycle, also for systems with dozens of labels. Sampling, not proof.",
            "Trusts refeval; systems the writer documents as unsupported (constant array outside init, undeclared symbol) are skipped and counted.",
            "DESIGN.md 5/C09"),
    "C10": ("exploration",
            "proptest over generated bit-vector systems x generalisation x profiles x unsat-core modes x model seeds; oracle: full explicit-state reachability fixpoint",
            "patronus::mc::pdr runs against the reference solver, which answers with randomised models and alternative valid unsat cores (z3's, all assumptions, deletion-minimal, core plus random extras); Success iff the reachability fixpoint has no bad state, Fail iff it has one; Unknown/error/panic fail; witnesses are replayed. Systems include gate states that only a constraint reads. A case exceeding 900 s is inconclusive (exit 2). Sampling, not proof.",
            "Trusts refsim and z3 behind the shim; the shim's alternative cores are valid by construction (supersets of a core / minimal subsets re-checked).",
            "DESIGN.md 5/C10"),
    "C11": ("exploration",
            "proptest over generated systems; metamorphic oracle: function-by-function reference evaluation + lock-step reference simulation",
            "Generated systems are transformed by simplify_expressions / replace_anonymous_inputs_with_zero and compared with the original function by function under all (<= 14 bits) or sampled assignments, by 4-step lock-step reference simulation, by symbol scans and by name checks; in a third of the cases further transformations are applied to the result (a history on one system). Sampling, not proof.",
            "Trusts refeval/refsim.",
            "DESIGN.md 5/C11"),
    "C15": ("fault_enumeration",
            "exhaustive fault enumeration: every response position x 12 fault kinds injected by the reference solver; killable child processes",
            "For fixed safe/unsafe systems and each engine (bmc, pdr with/without cores, a bare SolverContext session) a clean run determines the response-bearing points; every position up to the bound x every fault kind is injected; the run must return an error or Unknown within 90 s (killed otherwise; system/engine pairs with a clean run above 6 s are excluded and counted), never a verdict or panic, and error messages must arrive verbatim. Exhaustive within the stated bounds.",
            "A faulted run exceeding 90 s (clean runs of the enumerated pairs < 6 s, typically < 1 s) counts as blocking forever.",
            "DESIGN.md 5/C15"),
    "C16": ("exploration",
            "proptest round-trip printer->reader over generated witnesses and witness streams",
            "Generated complete witnesses (wide bit-vectors, arrays with duplicate/zero entries, sparse and dense) and streams of 1-5 witnesses are printed with witness_to_string and read back with parse_witness / parse_witnesses for n' below/at/above the number written; all fields are compared. Sampling, not proof.",
            "Shapes the printer cannot express (no failed property, array without recorded index, array inputs, index width > 64) are excluded by construction and counted.",
            "DESIGN.md 5/C16"),
    "C19": ("exploration",
            "exhaustive enumeration of width/sign instantiations up to a bound + condition-directed sampling; oracle: reference evaluation of both pattern sides",
            "Every shipped rewrite rule is instantiated for all width assignments up to 5 (7 thorough) and both signs, plus condition-directed samples up to 48 bits; where the side condition holds both lowered sides must agree on all (<= 12/16 bits) or 4096 sampled operand values. to_arith/from_arith round-trips are compared by the reference evaluator. Exhaustive within the stated bounds, sampling above.",
            "Trusts refeval and the harness' pattern instantiation (same scheme as the repository's manual checker).",
            "DESIGN.md 5/C19"),
    "C20": ("exploration",
            "stateful proptest over operation histories; invariant (partition) + shadow-denotation oracle evaluated exhaustively over all valuations",
            "Histories of new/apply_bin_op/apply_ite/coalesce/import_into_guard/expr_to_guard are run on the real ValueSummary; through the verif-hooks accessors every valuation of the underlying symbols (exhaustive) must enable exactly one entry whose value equals the harness' shadow denotation. Sampling of histories, exhaustive over valuations.",
            "Trusts boolean_expression's BDD::evaluate and refeval; needs the add-only verif-hooks feature of patronus-dse.",
            "DESIGN.md 5/C20"),
    "C17": ("exploration",
            "proptest over generated systems x roots; syntactic closure oracle + metamorphic perturbation in the reference simulator",
            "For every root and the three cone variants the result is checked to contain only inputs/states, to be inside the harness' own dependency closure (tightness) and to be sufficient: 16 pairs of executions agreeing on the cone and differing elsewhere give the root the same value. Sampling, not proof.",
            "Trusts refsim and the harness' closure computation.",
            "DESIGN.md 5/C17"),
    "C18": ("exploration",
            "mutation-based proptest over valid btor2 texts (generated and shipped) with panic capture and deep well-typedness check of accepted systems",
            "1-3 line/token/character-level edits of valid btor2 texts (plus probe outputs on arbitrary node lines) and grammar-generated ill-sorted variants (operator, init and next lines) are fed to parse_str under catch_unwind; allowed outcomes are rejection, a system passing a deep type/scope check in which every output has the type that the referenced line declares in the text, or a panic naming a documented unsupported operator. Sampling, not proof. Widths beyond 2^20 bits are excluded (resource use, not decidable here).",
            "Trusts the deep checker (own typing rules cross-checked with type_check/get_type).",
            "DESIGN.md 5/C18"),
    "C12": ("exploration",
            "stateful model-based proptest: construction histories vs shadow structural map",
            "Histories of up to 300 Context construction calls (direct builder methods and the Context::build facade, names from a list and from a tiny alphabet so that look-alikes meet) with bulk insertions and re-issues are replayed against a shadow map structural-key <-> ExprRef; every call and periodic audits check canonicity, stability of every reference ever obtained, and the true/false constants. Sampling of histories, not proof.",
            "Trusts the harness' structural key function (mirrors the documented builder normalisations).",
            "DESIGN.md 5/C12"),
    "C13": ("exploration",
            "proptest over batches and permutations; differential oracle between call histories / cache containers; watchdog for termination",
            "Batches of expressions sharing sub-terms (now and then with one root of several hundred rewritable terms) are simplified alone, in permuted batch order, with sparse and dense caches and repeatedly; all results must be the same reference and idempotent. Termination is judged by a 10 s + 60 s re-run watchdog (typical case < 1 ms). Sampling, not proof; non-termination can only be observed up to the watchdog bound.",
            "Elapsed time > 60 s for one batch is taken as non-termination (4 orders of magnitude margin).",
            "DESIGN.md 5/C13"),
    "C14": ("exploration",
            "proptest round-trip writer->reader, independent value printer->reader, single-edit malformed inputs",
            "Round-trips every SmtCommand variant and generated terms through serialize_cmd and parse_expr/parse_command/read_command (equivalence judged by the reference evaluator), reads model values printed in solver styles by an independent printer, reads whole scripts back from one stream with read_command (nothing lost, merged or reordered), and feeds single-edit malformed texts (must be Err or keep the original meaning; panics fail). Symbol names are generated from a broad alphabet. Sampling, not proof.",
            "Trusts smtref's printer/reader (self-checked on every case) and refeval. The end-to-end get_value path against the reference solver is part of the solver-backed checks.",
            "DESIGN.md 5/C14"),
}

ALL = ["C%02d" % i for i in range(1, 21)]

def main():
    checks = []
    for pid in ALL:
        if pid not in CHECKS:
            continue
        level, technique, text, note, ref = CHECKS[pid]
        checks.append({
            "property_id": pid,
            "quick_cmd": f"./check {pid} quick",
            "thorough_cmd": f"./check {pid} thorough",
            "evidence_file": f"/verif/evidence/{pid}.json",
            "replay_cmd_template": "./check --replay {path}",
            "engine": "pv",
            "level_claimed": {"category": level, "text": text, "design_ref": ref},
            "level_note": note,
            "technique": technique,
        })
    na = [{"property_id": p, "reason": "check under construction in this session (see DESIGN.md 5b build order); not yet claimed"}
          for p in ALL if p not in CHECKS]
    m = {
        "version": 1,
        "setup_cmd": "./check --build",
        "hooks": {
            "guard": "cargo feature verif-hooks (patronus-dse)",
            "enable": "the harness crate /verif/harness depends on /repo/patronus-dse by path with features=[\"verif-hooks\"]; /repo's own workspace never enables it",
            "baseline_off_cmd": "cd /repo && cargo test --workspace --no-fail-fast --offline",
            "source_commits": ["dac8f5e"],
            "add_only": True,
        },
        "engines": [
            {"name": "pv", "path": "/verif/harness", "serves_properties": sorted(CHECKS.keys()),
             "kind_free_text": "Rust harness: choice-tape generators driven by seeded proptest runners on 16 threads (same decoders reused by cargo-fuzz targets), independent reference evaluator/simulator/SMT front end as oracles, known-findings protocol, replay files"},
        ],
        "checks": checks,
        "not_applicable": na,
        "notes": "All checks: ./check <id> <tier>; exit 0 held / 1 VIOLATION / 2 harness trouble. VERIF_SEED selects the PRNG streams. known_findings.jsonl lists open and fixed findings. The thorough tier of the in-process properties adds a coverage-guided libFuzzer stage (cargo-fuzz targets tape / c18_bytes / c14_bytes, PV_FUZZ_SECS seconds) whose crashing inputs are re-judged by the same oracle.",
    }
    with open(os.path.join(ROOT, "MANIFEST.json"), "w") as f:
        json.dump(m, f, indent=1)
        f.write("\n")

if __name__ == "__main__":
    main()
