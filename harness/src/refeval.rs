//! Reference evaluator over patronus `Expr` nodes (all 35 node kinds incl. div/rem), SMT-LIB 2.6
//! FixedSizeBitVectors / ArraysEx semantics. Only reads nodes through the public `Index` impl.

use crate::refval::{Arr, Bv, Val};
use patronus::expr::{Context, Expr, ExprRef, ForEachChild, Type, TypeCheck};
use rustc_hash::FxHashMap;

pub type Env = FxHashMap<ExprRef, Val>;

/// children in argument order, *not* using patronus' for_each_child (independent enumeration)
pub fn children(e: &Expr) -> Vec<ExprRef> {
    match e {
        Expr::BVSymbol { .. } | Expr::BVLiteral(_) | Expr::ArraySymbol { .. } => vec![],
        Expr::BVZeroExt { e, .. }
        | Expr::BVSignExt { e, .. }
        | Expr::BVSlice { e, .. }
        | Expr::BVNot(e, _)
        | Expr::BVNegate(e, _)
        | Expr::ArrayConstant { e, .. } => vec![*e],
        Expr::BVEqual(a, b)
        | Expr::BVImplies(a, b)
        | Expr::BVGreater(a, b)
        | Expr::BVGreaterSigned(a, b, _)
        | Expr::BVGreaterEqual(a, b)
        | Expr::BVGreaterEqualSigned(a, b, _)
        | Expr::BVConcat(a, b, _)
        | Expr::BVAnd(a, b, _)
        | Expr::BVOr(a, b, _)
        | Expr::BVXor(a, b, _)
        | Expr::BVShiftLeft(a, b, _)
        | Expr::BVArithmeticShiftRight(a, b, _)
        | Expr::BVShiftRight(a, b, _)
        | Expr::BVAdd(a, b, _)
        | Expr::BVMul(a, b, _)
        | Expr::BVSignedDiv(a, b, _)
        | Expr::BVUnsignedDiv(a, b, _)
        | Expr::BVSignedMod(a, b, _)
        | Expr::BVSignedRem(a, b, _)
        | Expr::BVUnsignedRem(a, b, _)
        | Expr::BVSub(a, b, _)
        | Expr::ArrayEqual(a, b) => vec![*a, *b],
        Expr::BVArrayRead { array, index, .. } => vec![*array, *index],
        Expr::BVIte { cond, tru, fals } | Expr::ArrayIte { cond, tru, fals } => {
            vec![*cond, *tru, *fals]
        }
        Expr::ArrayStore { array, index, data } => vec![*array, *index, *data],
    }
}

pub fn op_name(e: &Expr) -> &'static str {
    match e {
        Expr::BVSymbol { .. } => "BVSymbol",
        Expr::BVLiteral(_) => "BVLiteral",
        Expr::BVZeroExt { .. } => "BVZeroExt",
        Expr::BVSignExt { .. } => "BVSignExt",
        Expr::BVSlice { .. } => "BVSlice",
        Expr::BVNot(..) => "BVNot",
        Expr::BVNegate(..) => "BVNegate",
        Expr::BVEqual(..) => "BVEqual",
        Expr::BVImplies(..) => "BVImplies",
        Expr::BVGreater(..) => "BVGreater",
        Expr::BVGreaterSigned(..) => "BVGreaterSigned",
        Expr::BVGreaterEqual(..) => "BVGreaterEqual",
        Expr::BVGreaterEqualSigned(..) => "BVGreaterEqualSigned",
        Expr::BVConcat(..) => "BVConcat",
        Expr::BVAnd(..) => "BVAnd",
        Expr::BVOr(..) => "BVOr",
        Expr::BVXor(..) => "BVXor",
        Expr::BVShiftLeft(..) => "BVShiftLeft",
        Expr::BVArithmeticShiftRight(..) => "BVArithmeticShiftRight",
        Expr::BVShiftRight(..) => "BVShiftRight",
        Expr::BVAdd(..) => "BVAdd",
        Expr::BVMul(..) => "BVMul",
        Expr::BVSignedDiv(..) => "BVSignedDiv",
        Expr::BVUnsignedDiv(..) => "BVUnsignedDiv",
        Expr::BVSignedMod(..) => "BVSignedMod",
        Expr::BVSignedRem(..) => "BVSignedRem",
        Expr::BVUnsignedRem(..) => "BVUnsignedRem",
        Expr::BVSub(..) => "BVSub",
        Expr::BVArrayRead { .. } => "BVArrayRead",
        Expr::BVIte { .. } => "BVIte",
        Expr::ArraySymbol { .. } => "ArraySymbol",
        Expr::ArrayConstant { .. } => "ArrayConstant",
        Expr::ArrayEqual(..) => "ArrayEqual",
        Expr::ArrayStore { .. } => "ArrayStore",
        Expr::ArrayIte { .. } => "ArrayIte",
    }
}

pub fn is_divrem(e: &Expr) -> bool {
    matches!(
        e,
        Expr::BVSignedDiv(..)
            | Expr::BVUnsignedDiv(..)
            | Expr::BVSignedMod(..)
            | Expr::BVSignedRem(..)
            | Expr::BVUnsignedRem(..)
    )
}

pub fn lit_value(ctx: &Context, e: ExprRef) -> Option<Bv> {
    if let Expr::BVLiteral(v) = &ctx[e] { Some(Bv::from_baa(&v.get(ctx))) } else { None }
}

/// Apply one node to already-evaluated children.
pub fn apply(ctx: &Context, e: ExprRef, args: &[&Val]) -> Result<Val, String> {
    let bv = |i: usize| -> &Bv { args[i].bv() };
    let arr = |i: usize| -> &Arr { args[i].arr() };
    let b = |x: bool| Val::Bv(Bv::bool(x));
    Ok(match &ctx[e] {
        Expr::BVSymbol { name, width } => {
            return Err(format!("no value for symbol {} : bv<{}>", ctx[*name], width));
        }
        Expr::ArraySymbol { name, .. } => {
            return Err(format!("no value for array symbol {}", ctx[*name]));
        }
        Expr::BVLiteral(v) => Val::Bv(Bv::from_baa(&v.get(ctx))),
        Expr::BVZeroExt { by, .. } => Val::Bv(bv(0).zext(*by)),
        Expr::BVSignExt { by, .. } => Val::Bv(bv(0).sext(*by)),
        Expr::BVSlice { hi, lo, .. } => Val::Bv(bv(0).slice(*hi, *lo)),
        Expr::BVNot(..) => Val::Bv(bv(0).not()),
        Expr::BVNegate(..) => Val::Bv(bv(0).neg()),
        Expr::BVEqual(..) => b(bv(0) == bv(1)),
        Expr::BVImplies(..) => b(!bv(0).is_true() || bv(1).is_true()),
        Expr::BVGreater(..) => b(bv(0).ugt(bv(1))),
        Expr::BVGreaterSigned(..) => b(bv(0).sgt(bv(1))),
        Expr::BVGreaterEqual(..) => b(bv(0).uge(bv(1))),
        Expr::BVGreaterEqualSigned(..) => b(bv(0).sge(bv(1))),
        Expr::BVConcat(..) => Val::Bv(bv(0).concat(bv(1))),
        Expr::BVAnd(..) => Val::Bv(bv(0).and(bv(1))),
        Expr::BVOr(..) => Val::Bv(bv(0).or(bv(1))),
        Expr::BVXor(..) => Val::Bv(bv(0).xor(bv(1))),
        Expr::BVShiftLeft(..) => Val::Bv(bv(0).shl(bv(1))),
        Expr::BVArithmeticShiftRight(..) => Val::Bv(bv(0).ashr(bv(1))),
        Expr::BVShiftRight(..) => Val::Bv(bv(0).lshr(bv(1))),
        Expr::BVAdd(..) => Val::Bv(bv(0).add(bv(1))),
        Expr::BVMul(..) => Val::Bv(bv(0).mul(bv(1))),
        Expr::BVSignedDiv(..) => Val::Bv(bv(0).sdiv(bv(1))),
        Expr::BVUnsignedDiv(..) => Val::Bv(bv(0).udiv(bv(1))),
        Expr::BVSignedMod(..) => Val::Bv(bv(0).smod(bv(1))),
        Expr::BVSignedRem(..) => Val::Bv(bv(0).srem(bv(1))),
        Expr::BVUnsignedRem(..) => Val::Bv(bv(0).urem(bv(1))),
        Expr::BVSub(..) => Val::Bv(bv(0).sub(bv(1))),
        Expr::BVArrayRead { .. } => Val::Bv(arr(0).select(bv(1))),
        Expr::BVIte { .. } | Expr::ArrayIte { .. } => {
            if bv(0).is_true() { args[1].clone() } else { args[2].clone() }
        }
        Expr::ArrayConstant { index_width, .. } => Val::Arr(Arr::constant(*index_width, bv(0))),
        Expr::ArrayEqual(..) => b(arr(0).ext_eq(arr(1))),
        Expr::ArrayStore { .. } => Val::Arr(arr(0).store(bv(1), bv(2))),
    })
}

/// Evaluate `root` under `env` (values for symbols; a value for an inner node overrides its subtree).
pub fn eval(ctx: &Context, env: &Env, root: ExprRef) -> Result<Val, String> {
    let mut cache: FxHashMap<ExprRef, Val> = FxHashMap::default();
    eval_cached(ctx, env, root, &mut cache)
}

pub fn eval_cached(
    ctx: &Context,
    env: &Env,
    root: ExprRef,
    cache: &mut FxHashMap<ExprRef, Val>,
) -> Result<Val, String> {
    let mut todo: Vec<(ExprRef, bool)> = vec![(root, false)];
    while let Some((e, ready)) = todo.pop() {
        if cache.contains_key(&e) {
            continue;
        }
        if let Some(v) = env.get(&e) {
            cache.insert(e, v.clone());
            continue;
        }
        let ch = children(&ctx[e]);
        if !ready {
            let missing: Vec<ExprRef> =
                ch.iter().copied().filter(|c| !cache.contains_key(c)).collect();
            if !missing.is_empty() {
                todo.push((e, true));
                for c in missing {
                    todo.push((c, false));
                }
                continue;
            }
        }
        let args: Vec<&Val> = ch.iter().map(|c| cache.get(c).expect("child value")).collect();
        let v = apply(ctx, e, &args)?;
        cache.insert(e, v);
    }
    Ok(cache.get(&root).unwrap().clone())
}

/// All nodes reachable from root (each once), children before parents.
pub fn reachable(ctx: &Context, roots: &[ExprRef]) -> Vec<ExprRef> {
    let mut seen: rustc_hash::FxHashSet<ExprRef> = Default::default();
    let mut out = vec![];
    let mut todo: Vec<(ExprRef, bool)> = roots.iter().rev().map(|r| (*r, false)).collect();
    while let Some((e, ready)) = todo.pop() {
        if ready {
            out.push(e);
            continue;
        }
        if !seen.insert(e) {
            continue;
        }
        todo.push((e, true));
        for c in children(&ctx[e]).into_iter().rev() {
            if !seen.contains(&c) {
                todo.push((c, false));
            }
        }
    }
    out
}

pub fn symbols_of(ctx: &Context, roots: &[ExprRef]) -> Vec<ExprRef> {
    reachable(ctx, roots).into_iter().filter(|e| ctx[*e].is_symbol()).collect()
}

/// Independent structural type computation + full check of one node (children assumed checked).
/// Returns the type or a description of what is wrong. Compared with patronus' get_type/type_check.
pub fn ref_type(ctx: &Context, e: ExprRef, ty: &FxHashMap<ExprRef, Type>) -> Result<Type, String> {
    use patronus::expr::ArrayType;
    let t = |x: &ExprRef| ty[x];
    let bvw = |x: &ExprRef| -> Result<u32, String> {
        match ty[x] {
            Type::BV(w) => Ok(w),
            Type::Array(_) => Err("array operand where bit-vector expected".to_string()),
        }
    };
    let same = |a: &ExprRef, b: &ExprRef, w: Option<u32>| -> Result<u32, String> {
        let (wa, wb) = (bvw(a)?, bvw(b)?);
        if wa != wb {
            return Err(format!("operand widths differ: {wa} vs {wb}"));
        }
        if let Some(w) = w {
            if w != wa {
                return Err(format!("width field {w} but operands are {wa}"));
            }
        }
        Ok(wa)
    };
    Ok(match &ctx[e] {
        Expr::BVSymbol { width, .. } => {
            if *width == 0 {
                return Err("zero width symbol".into());
            }
            Type::BV(*width)
        }
        Expr::BVLiteral(v) => {
            if v.width() == 0 {
                return Err("zero width literal".into());
            }
            Type::BV(v.width())
        }
        Expr::BVZeroExt { e, by, width } | Expr::BVSignExt { e, by, width } => {
            let w = bvw(e)?;
            if w + by != *width {
                return Err(format!("ext: {w}+{by} != {width}"));
            }
            Type::BV(*width)
        }
        Expr::BVSlice { e, hi, lo } => {
            let w = bvw(e)?;
            if hi < lo || *hi >= w {
                return Err(format!("slice [{hi}:{lo}] of bv<{w}>"));
            }
            Type::BV(hi - lo + 1)
        }
        Expr::BVNot(a, w) | Expr::BVNegate(a, w) => {
            if bvw(a)? != *w {
                return Err("unary width field mismatch".into());
            }
            Type::BV(*w)
        }
        Expr::BVEqual(a, b) | Expr::BVGreater(a, b) | Expr::BVGreaterEqual(a, b) => {
            same(a, b, None)?;
            Type::BV(1)
        }
        Expr::BVGreaterSigned(a, b, _) | Expr::BVGreaterEqualSigned(a, b, _) => {
            same(a, b, None)?;
            Type::BV(1)
        }
        Expr::BVImplies(a, b) => {
            same(a, b, Some(1))?;
            Type::BV(1)
        }
        Expr::BVConcat(a, b, w) => {
            if bvw(a)? + bvw(b)? != *w {
                return Err("concat width mismatch".into());
            }
            Type::BV(*w)
        }
        Expr::BVAnd(a, b, w)
        | Expr::BVOr(a, b, w)
        | Expr::BVXor(a, b, w)
        | Expr::BVShiftLeft(a, b, w)
        | Expr::BVArithmeticShiftRight(a, b, w)
        | Expr::BVShiftRight(a, b, w)
        | Expr::BVAdd(a, b, w)
        | Expr::BVMul(a, b, w)
        | Expr::BVSignedDiv(a, b, w)
        | Expr::BVUnsignedDiv(a, b, w)
        | Expr::BVSignedMod(a, b, w)
        | Expr::BVSignedRem(a, b, w)
        | Expr::BVUnsignedRem(a, b, w)
        | Expr::BVSub(a, b, w) => Type::BV(same(a, b, Some(*w))?),
        Expr::BVArrayRead { array, index, width } => match t(array) {
            Type::Array(at) => {
                if bvw(index)? != at.index_width || at.data_width != *width {
                    return Err("array read widths".into());
                }
                Type::BV(*width)
            }
            _ => return Err("read of non-array".into()),
        },
        Expr::BVIte { cond, tru, fals } => {
            if bvw(cond)? != 1 {
                return Err("ite cond not 1-bit".into());
            }
            Type::BV(same(tru, fals, None)?)
        }
        Expr::ArraySymbol { index_width, data_width, .. } => {
            Type::Array(ArrayType { index_width: *index_width, data_width: *data_width })
        }
        Expr::ArrayConstant { e, index_width, data_width } => {
            if bvw(e)? != *data_width {
                return Err("array const data width".into());
            }
            Type::Array(ArrayType { index_width: *index_width, data_width: *data_width })
        }
        Expr::ArrayEqual(a, b) => {
            if !t(a).is_array() || t(a) != t(b) {
                return Err("array eq types".into());
            }
            Type::BV(1)
        }
        Expr::ArrayStore { array, index, data } => match t(array) {
            Type::Array(at) => {
                if bvw(index)? != at.index_width || bvw(data)? != at.data_width {
                    return Err("array store widths".into());
                }
                Type::Array(at)
            }
            _ => return Err("store to non-array".into()),
        },
        Expr::ArrayIte { cond, tru, fals } => {
            if bvw(cond)? != 1 {
                return Err("ite cond not 1-bit".into());
            }
            if !t(tru).is_array() || t(tru) != t(fals) {
                return Err("array ite branches".into());
            }
            t(tru)
        }
    })
}

/// Deep well-typedness check of everything reachable from the roots: harness' own typing,
/// patronus' `type_check` and `get_type` must all agree.
pub fn deep_type_check(ctx: &Context, roots: &[ExprRef]) -> Result<FxHashMap<ExprRef, Type>, String> {
    let mut ty: FxHashMap<ExprRef, Type> = FxHashMap::default();
    for e in reachable(ctx, roots) {
        let t = ref_type(ctx, e, &ty)
            .map_err(|m| format!("ill-typed node {:?} ({}): {}", e, op_name(&ctx[e]), m))?;
        match e.type_check(ctx) {
            Ok(pt) => {
                if pt != t {
                    return Err(format!(
                        "type_check of {:?} ({}) gives {:?}, expected {:?}",
                        e,
                        op_name(&ctx[e]),
                        pt,
                        t
                    ));
                }
            }
            Err(err) => {
                return Err(format!(
                    "type_check rejects node {:?} ({}): {}",
                    e,
                    op_name(&ctx[e]),
                    err.get_msg()
                ));
            }
        }
        let gt = e.get_type(ctx);
        if gt != t {
            return Err(format!(
                "get_type of {:?} ({}) gives {:?}, expected {:?}",
                e,
                op_name(&ctx[e]),
                gt,
                t
            ));
        }
        ty.insert(e, t);
    }
    Ok(ty)
}

/// Pretty printer independent of patronus' serializer (used for samples and replay headers).
pub fn show(ctx: &Context, root: ExprRef) -> String {
    fn go(ctx: &Context, e: ExprRef, depth: usize, out: &mut String) {
        if depth > 40 {
            out.push_str("…");
            return;
        }
        let ex = &ctx[e];
        match ex {
            Expr::BVSymbol { name, width } => {
                out.push_str(&format!("{}:{}", ctx[*name], width));
            }
            Expr::ArraySymbol { name, index_width, data_width } => {
                out.push_str(&format!("{}:[{}->{}]", ctx[*name], index_width, data_width));
            }
            Expr::BVLiteral(v) => {
                out.push_str(&Bv::from_baa(&v.get(ctx)).short());
            }
            _ => {
                out.push_str(op_name(ex));
                match ex {
                    Expr::BVSlice { hi, lo, .. } => out.push_str(&format!("[{hi}:{lo}]")),
                    Expr::BVZeroExt { by, .. } | Expr::BVSignExt { by, .. } => {
                        out.push_str(&format!("[{by}]"))
                    }
                    Expr::ArrayConstant { index_width, .. } => {
                        out.push_str(&format!("[iw={index_width}]"))
                    }
                    _ => {}
                }
                out.push('(');
                for (i, c) in children(ex).iter().enumerate() {
                    if i > 0 {
                        out.push_str(", ");
                    }
                    go(ctx, *c, depth + 1, out);
                }
                out.push(')');
            }
        }
    }
    let mut s = String::new();
    go(ctx, root, 0, &mut s);
    if s.len() > 2000 {
        let mut cut = 2000;
        while !s.is_char_boundary(cut) {
            cut -= 1;
        }
        s.truncate(cut);
        s.push_str("…");
    }
    s
}

/// sanity: patronus' own child enumeration agrees with ours (used by C06 as part of the oracle)
pub fn children_agree(ctx: &Context, e: ExprRef) -> bool {
    let mut theirs = vec![];
    ctx[e].for_each_child(|c| theirs.push(*c));
    theirs == children(&ctx[e]) && ctx[e].num_children() == theirs.len()
}
