//! Installing and configuring the reference solver shim for the current process.

use patronus::smt::{BITWUZLA, CVC5, SmtLibSolver, YICES2, Z3};
use std::path::PathBuf;

pub const PROFILES: [&str; 4] = ["bitwuzla", "yices-smt2", "z3", "cvc5"];

pub fn profile(i: usize) -> (&'static str, SmtLibSolver) {
    match i % 4 {
        0 => ("bitwuzla", BITWUZLA),
        1 => ("yices-smt2", YICES2),
        2 => ("z3", Z3),
        _ => ("cvc5", CVC5),
    }
}

/// Creates `<dir of the running binary>/shimbin/{bitwuzla,yices-smt2,z3,cvc5}` -> refsolver and
/// puts that directory first on PATH. Must run while the process is still single threaded with
/// respect to environment access (called from Prop::setup).
pub fn install() -> Result<PathBuf, String> {
    let exe = std::env::current_exe().map_err(|e| e.to_string())?;
    let dir = exe.parent().ok_or("no parent dir")?.to_path_buf();
    let refsolver = dir.join("refsolver");
    if !refsolver.exists() {
        return Err(format!("{} not built", refsolver.display()));
    }
    if !std::path::Path::new("/usr/bin/z3").exists() && std::env::var("REFSOLVER_Z3").is_err() {
        return Err("/usr/bin/z3 is missing".into());
    }
    let bin = dir.join("shimbin");
    std::fs::create_dir_all(&bin).map_err(|e| e.to_string())?;
    for name in PROFILES {
        let link = bin.join(name);
        let ok = std::fs::read_link(&link).map(|t| t == refsolver).unwrap_or(false);
        if !ok {
            let _ = std::fs::remove_file(&link);
            if let Err(e) = std::os::unix::fs::symlink(&refsolver, &link) {
                // another worker may have created it concurrently
                if !link.exists() {
                    return Err(format!("symlink {}: {}", link.display(), e));
                }
            }
        }
    }
    let path = std::env::var("PATH").unwrap_or_default();
    let bin_s = bin.display().to_string();
    if !path.split(':').any(|p| p == bin_s) {
        // SAFETY: called before any worker thread of this process reads the environment
        unsafe { std::env::set_var("PATH", format!("{}:{}", bin_s, path)) };
    }
    Ok(bin)
}

#[derive(Clone, Debug, Default)]
pub struct ShimCfg {
    pub seed: u64,
    pub core: String,
    pub fault: Option<(u64, String)>,
    pub log: Option<PathBuf>,
}

/// More (Some(n)) or the default number (None) of model-randomisation attempts after a sat answer,
/// for solver processes started afterwards (worker processes only, like `apply`).
pub fn set_model_tries(n: Option<u32>) {
    unsafe {
        match n {
            Some(n) => std::env::set_var("REFSOLVER_TRIES", n.to_string()),
            None => std::env::remove_var("REFSOLVER_TRIES"),
        }
    }
}

/// Sets the REFSOLVER_* variables for solver processes started afterwards. Only valid in the
/// single-threaded worker processes (`pvcheck --worker`).
pub fn apply(cfg: &ShimCfg) {
    unsafe {
        std::env::set_var("REFSOLVER_SEED", cfg.seed.to_string());
        std::env::set_var("REFSOLVER_CORE", if cfg.core.is_empty() { "z3" } else { &cfg.core });
        match &cfg.fault {
            Some((n, k)) => std::env::set_var("REFSOLVER_FAULT", format!("{}:{}", n, k)),
            None => std::env::remove_var("REFSOLVER_FAULT"),
        }
        match &cfg.log {
            Some(p) => std::env::set_var("REFSOLVER_LOG", p),
            // debugging aid: PV_SHIM_LOG=<file> logs every conversation of a replay
            None => match std::env::var("PV_SHIM_LOG") {
                Ok(p) => std::env::set_var("REFSOLVER_LOG", p),
                Err(_) => std::env::remove_var("REFSOLVER_LOG"),
            },
        }
    }
}

#[derive(Clone, Debug)]
pub struct LogEntry {
    pub pid: u64,
    pub n: u64,
    pub kind: String,
    pub cmd: String,
    pub resp: String,
}

pub fn read_log(path: &std::path::Path) -> Vec<LogEntry> {
    let mut out = vec![];
    if let Ok(text) = std::fs::read_to_string(path) {
        for l in text.lines() {
            if let Ok(v) = serde_json::from_str::<serde_json::Value>(l) {
                out.push(LogEntry {
                    pid: v["pid"].as_u64().unwrap_or(0),
                    n: v["n"].as_u64().unwrap_or(0),
                    kind: v["kind"].as_str().unwrap_or("").to_string(),
                    cmd: v["cmd"].as_str().unwrap_or("").to_string(),
                    resp: v["resp"].as_str().unwrap_or("").to_string(),
                });
            }
        }
    }
    out
}

pub fn tmp_log_path(tag: &str) -> PathBuf {
    let dir = crate::engine::verif_root().join("replays").join("tmp");
    let _ = std::fs::create_dir_all(&dir);
    dir.join(format!("shim-{}-{}.log", std::process::id(), tag))
}
