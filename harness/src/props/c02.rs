//! C02 — bounded model checking returns the exact verdict up to the bound, whichever supported
//! solver profile is used, whether bad states are checked individually or jointly, with or without
//! prior simplification.

use crate::engine::*;
use crate::gen_sys::{SysCfg, gen_system, show_system};
use crate::mcrun::{Engine, McOutcome, error_class, run_mc, show_witness, validate_witness};
use crate::refsim::{RefSim, reachability};
use crate::shim::{self, ShimCfg};
use crate::tape::{Tape, hash_bytes};
use patronus::expr::TypeCheck;
use patronus::system::transform::simplify_expressions;

pub struct C02;

pub fn sys_cfg() -> SysCfg {
    SysCfg {
        max_state_bits: 8,
        max_input_bits: 4,
        max_states: 3,
        max_inputs: 2,
        arrays: true,
        expr_steps: 5,
        names_and_aliases: true,
        mc_bias: true,
        wide_const_state: true,
        ..SysCfg::default()
    }
}

impl Prop for C02 {
    fn id(&self) -> &'static str {
        "C02"
    }
    fn rule(&self) -> String {
        "generated transition systems (<= 8 state bits incl. array states, <= 4 input bits, states with/without init, init over earlier states or inputs, constant and next-less states, constraints incl. dead-end and unsatisfiable ones, 1-3 bad states, sub-expressions shared between init/next/bad) x bound k in 1..8 x solver profile {bitwuzla, yices-smt2 (push/pop emulation, no constant arrays), z3, cvc5} x bad-state mode {individually, jointly} x {as generated, after simplify_expressions}; three configurations per system. patronus::mc::bmc runs through the real SmtLibSolverCtx against the reference solver shim (strict SMT-LIB checker in front of z3, randomised models). Oracle: explicit-state reachability of the reference simulator: Fail iff the minimal bad depth <= k, else Success; an error, Unknown or panic is a failure; every returned witness is also validated. check_constraints=true only when an execution of length k+1 exists. Non-trivial: system with a constraint that excludes some input, >= 3 reachable states, and a bad state that is unreachable or reachable at depth >= 1; distinct by hash of (system, configuration).".into()
    }
    fn assumptions(&self) -> Vec<String> {
        vec![
            "z3 4.8.12 decides the tiny QF_ABV queries behind the shim correctly (a wrong answer would surface as a verdict mismatch)".into(),
            "refsim's transition-system semantics (DESIGN.md 3.4)".into(),
        ]
    }
    fn budget(&self, tier: Tier) -> Budget {
        match tier {
            Tier::Quick => Budget { cases: 800, max_tape: 640 },
            Tier::Thorough => Budget { cases: 16_000, max_tape: 1024 },
        }
    }
    fn isolated(&self) -> bool {
        true
    }
    fn case_time_limit(&self) -> u64 {
        480
    }
    fn setup(&self, _tier: Tier) -> Result<(), String> {
        shim::install().map(|_| ())
    }
    fn run_tape(&self, tape: &[u8], _tier: Tier, rec: &mut Recorder) -> Result<(), Failure> {
        let mut t = Tape::new(tape);
        // configuration bytes first (stable under generator changes)
        let cfg_bytes: Vec<u8> = (0..9).map(|_| t.byte()).collect();
        let seed = 1 + (t.u16() as u64);
        let case = gen_system(&mut t, &sys_cfg());
        let text = show_system(&case.ctx, &case.sys);
        let sim = RefSim::new(&case.ctx, &case.sys);
        let reach = reachability(&sim).map_err(|m| Failure::new("harness/c02-reach", m))?;
        let min_bad = reach.min_any_bad();
        let has_arrays = case.sys.states.iter().any(|s| s.symbol.get_type(&case.ctx).is_array());
        // a bad state in the initial state is what the generator yields most often: keep one in three
        if min_bad == Some(0) && seed % 3 != 0 {
            rec.exclude("bad in the initial state (2 of 3 sub-sampled away)");
            return Ok(());
        }
        for run in 0..3usize {
            let b = |i: usize| cfg_bytes[run * 3 + i];
            let profile_idx = (b(0) % 4) as usize;
            let individually = b(1) & 1 == 1;
            let simplify = b(1) & 2 == 2;
            // bounds around the interesting depths
            let k: u64 = match (b(2) % 4, min_bad) {
                (0, Some(d)) if d >= 1 => d as u64,                  // exactly at the minimal depth
                (1, Some(d)) if d >= 2 => d as u64 - 1,              // just below
                (2, _) => (reach.diameter as u64 + 1).clamp(1, 8),   // above the diameter
                _ => 1 + (b(2) as u64 / 4) % 8,
            };
            let expected_fail = min_bad.map(|d| d as u64 <= k).unwrap_or(false);
            let check_constraints = (b(1) & 4 == 4) && reach.max_execution_len as u64 >= k + 1;
            let (pname, _) = shim::profile(profile_idx);
            rec.eval();
            rec.label(&format!("profile:{}", pname));
            rec.label(if individually { "mode:individually" } else { "mode:jointly" });
            if simplify {
                rec.label("simplified-first");
            }
            let mut ctx = case.ctx.clone();
            let mut sys = case.sys.clone();
            if simplify {
                if let Err(p) = guard(|| simplify_expressions(&mut ctx, &mut sys)) {
                    // a simplifier panic is C01/C11's business
                    rec.exclude(&format!("simplify_expressions panicked: {}", p.class()));
                    continue;
                }
            }
            let cfg = ShimCfg { seed: seed + run as u64, core: "z3".into(), fault: None, log: None };
            let out = run_mc(&mut ctx, &sys, profile_idx, Engine::Bmc { individually, k, check_constraints }, &cfg);
            let conf = format!(
                "profile={} k={} individually={} simplify={} check_constraints={} (min bad depth {:?}, diameter {}, reachable {})",
                pname, k, individually, simplify, check_constraints, min_bad, reach.diameter, reach.reachable
            );
            let fail = |sig: String, msg: String| -> Failure { Failure::new(sig, format!("{}\n{}\nsystem: {}", msg, conf, text)) };
            let f = match out {
                McOutcome::StartFailed(m) => return Err(Failure::new("harness/solver-start", m)),
                McOutcome::Panic(p) => Some(fail(
                    format!("bmc/{}/{}", pname, p.class()),
                    format!("panic {}:{} {}", p.file, p.line, p.msg),
                )),
                McOutcome::Err(m) => {
                    let cls = error_class(&m);
                    if cls == "BACKEND" {
                        return Err(Failure::new("harness/backend-disagrees", format!("{}\n{}", m, text)));
                    }
                    Some(fail(
                        format!("bmc/{}/error/{}{}", pname, cls, if has_arrays { "/array-states" } else { "" }),
                        format!("bmc returned an error: {}", m),
                    ))
                }
                McOutcome::Unknown => Some(fail(format!("bmc/{}/unknown", pname), "bmc returned Unknown".into())),
                McOutcome::Success => {
                    if expected_fail {
                        Some(fail(
                            format!("bmc/wrong-verdict/success-but-bad-reachable/{}", if individually { "individually" } else { "jointly" }),
                            format!("bmc reports success up to k={} but a bad state is reachable at depth {:?}", k, min_bad),
                        ))
                    } else {
                        None
                    }
                }
                McOutcome::Fail(w) => {
                    if !expected_fail {
                        Some(fail(
                            format!("bmc/wrong-verdict/fail-but-unreachable/{}", if individually { "individually" } else { "jointly" }),
                            format!("bmc reports a failure within k={} but no bad state is reachable that early; witness {}", k, show_witness(&w)),
                        ))
                    } else {
                        match validate_witness(&ctx, &sys, &w) {
                            Ok(()) => {
                                if (w.inputs.len() as u64) > k + 1 {
                                    Some(fail("bmc/witness-longer-than-bound".into(), show_witness(&w)))
                                } else {
                                    None
                                }
                            }
                            Err((kind, msg)) => Some(fail(
                                format!("witness/{}", kind),
                                format!("{}\nwitness {}", msg, show_witness(&w)),
                            )),
                        }
                    }
                }
            };
            if let Some(f) = f {
                if rec.tolerate("C02", &f) {
                    continue; // listed finding: counted, the other configurations are still judged
                }
                return Err(f);
            }
            // non-triviality
            let excl_input = !case.sys.constraints.is_empty() && reach.reachable >= 3;
            let interesting = match min_bad {
                None => true,
                Some(d) => d >= 1,
            };
            if excl_input && interesting {
                rec.nontrivial(hash_bytes(format!("{}|{}", text, conf).as_bytes()));
                if rec.want_sample() {
                    rec.sample(format!("{} :: {}", conf, text));
                }
            }
            rec.label(if expected_fail { "verdict:fail" } else { "verdict:success" });
            rec.label(&match min_bad {
                None => format!("bad:unreachable/k{}", if k > reach.diameter as u64 { ">diameter" } else { "<=diameter" }),
                Some(d) => format!(
                    "bad-depth:{}/k{}",
                    if d >= 4 { "4+".to_string() } else { d.to_string() },
                    if k < d as u64 { "<depth" } else if k == d as u64 { "=depth" } else { ">depth" }
                ),
            });
        }
        Ok(())
    }
}
