//! C03 — every counterexample reported by BMC or PDR is a real execution that hits a bad state:
//! replay in the reference simulator and in patronus' own Interpreter, under several solver models.

use crate::engine::*;
use crate::gen_sys::{SysCfg, gen_system, show_system};
use crate::mcrun::{Engine, McOutcome, run_mc, show_witness, validate_witness};
use crate::refsim::{RefSim, reachability};
use crate::refval::{Bv, Val};
use crate::shim::{self, ShimCfg};
use crate::tape::{Tape, hash_bytes};
use baa::{BitVecOps, Value};
use patronus::expr::{Context, TypeCheck};
use patronus::mc::{InitValue, Witness};
use patronus::sim::{InitKind, Interpreter, Simulator};
use patronus::system::TransitionSystem;

pub struct C03;

/// Replays a witness in patronus' own simulator: states are forced to the witnessed initial values
/// (they were checked against the init expressions by the reference replay), inputs are applied
/// per step; all constraints must hold at every step and the failed bad states must hold at the end.
fn replay_in_interpreter(ctx: &Context, sys: &TransitionSystem, wit: &Witness) -> Result<(), (String, String)> {
    // only bit-vector systems whose states all have a next function can be driven this way
    if sys.states.iter().any(|s| s.next.is_none() || !s.symbol.get_type(ctx).is_bit_vector()) {
        return Ok(());
    }
    let r = guard(|| -> Result<(), (String, String)> {
        let mut sim = Interpreter::new(ctx, sys);
        sim.init(InitKind::Zero);
        for (k, st) in sys.states.iter().enumerate() {
            if let InitValue::BitVec(v) = &wit.init[k] {
                sim.set(st.symbol, v);
            }
        }
        let steps = wit.inputs.len();
        for s in 0..steps {
            for (k, i) in sys.inputs.iter().enumerate() {
                if let Some(Value::BitVec(v)) = &wit.inputs[s][k] {
                    sim.set(*i, v);
                }
            }
            for (j, c) in sys.constraints.iter().enumerate() {
                if let Value::BitVec(v) = sim.get(*c) {
                    if v.is_zero() {
                        return Err(("interpreter-constraint-violated".into(), format!("constraint {} is false at step {}", j, s)));
                    }
                }
            }
            if s + 1 == steps {
                let mut holds = vec![];
                for (j, b) in sys.bad_states.iter().enumerate() {
                    if let Value::BitVec(v) = sim.get(*b) {
                        if !v.is_zero() {
                            holds.push(j as u32);
                        }
                    }
                }
                let mut want = wit.failed_safety.clone();
                want.sort();
                want.dedup();
                if holds != want {
                    return Err((
                        "interpreter-failed-set-mismatch".into(),
                        format!("the Interpreter sees bad states {:?} at the last step, the witness claims {:?}", holds, want),
                    ));
                }
            } else {
                sim.step();
            }
        }
        Ok(())
    });
    match r {
        Ok(x) => x,
        Err(p) => Err((format!("interpreter-{}", p.class()), p.msg)),
    }
}

fn witness_fingerprint(w: &Witness) -> u64 {
    hash_bytes(show_witness(w).as_bytes())
}

impl Prop for C03 {
    fn id(&self) -> &'static str {
        "C03"
    }
    fn rule(&self) -> String {
        "generated transition systems biased to be unsafe (bad depth 0-6; bit-vector and array states for BMC, bit-vector states for PDR) plus one in five of the safe ones (where any reported failure is a bogus counterexample); bmc (individually / jointly) and pdr (cores on/off) run against the reference solver under 3 model seeds each and random solver profiles. Every ModelCheckResult::Fail witness is replayed in the reference simulator: one init value per state in system order with the system's names and types; init-ed states equal their init expressions over the witnessed values; one value per input per step with the system's names and widths; all constraints hold at every step (existentially over values of next-less states, which the format cannot carry); at the last step >= 1 bad state holds and failed_safety is exactly the set that holds; and also driven through patronus::sim::Interpreter (bit-vector systems with next functions). Non-trivial: witness of length >= 2 with >= 1 input, or with an array state, and >= 2 distinct models seen for the same system; distinct by hash of the witness.".into()
    }
    fn budget(&self, tier: Tier) -> Budget {
        match tier {
            Tier::Quick => Budget { cases: 384, max_tape: 512 },
            Tier::Thorough => Budget { cases: 8_000, max_tape: 768 },
        }
    }
    fn isolated(&self) -> bool {
        true
    }
    fn case_time_limit(&self) -> u64 {
        480
    }
    fn setup(&self, _tier: Tier) -> Result<(), String> {
        shim::install().map(|_| ())
    }
    fn run_tape(&self, tape: &[u8], _tier: Tier, rec: &mut Recorder) -> Result<(), Failure> {
        let mut t = Tape::new(tape);
        let cfg_bytes: Vec<u8> = (0..4).map(|_| t.byte()).collect();
        let seed0 = 1 + (t.u16() as u64);
        let use_pdr = cfg_bytes[0] & 1 == 1;
        let cfg = SysCfg {
            max_state_bits: if use_pdr { 6 } else { 8 },
            max_input_bits: 4,
            max_states: 3,
            max_inputs: 2,
            arrays: !use_pdr,
            expr_steps: 4,
            max_bads: 3,
            mc_bias: true,
            wide_const_state: !use_pdr,
        ..SysCfg::default()
        };
        let case = gen_system(&mut t, &cfg);
        let text = show_system(&case.ctx, &case.sys);
        let sim = RefSim::new(&case.ctx, &case.sys);
        let reach = reachability(&sim).map_err(|m| Failure::new("harness/c03-reach", m))?;
        // safe systems take part too: a checker that reports a failure there has, by definition, handed
        // out a witness that is not an execution (one in five is kept; the bound is then arbitrary)
        let safe = reach.min_any_bad().is_none();
        if safe && (seed0 % 5 != 0 || (use_pdr && reach.diameter > 8)) {
            rec.exclude("system is safe (4 of 5 sub-sampled away; PDR only up to diameter 8)");
            return Ok(());
        }
        if safe {
            rec.label("safe-system (any reported failure is bogus)");
        }
        if case.sys.states.iter().any(|s| s.init.is_some() && s.init == s.next && crate::refeval::lit_value(&case.ctx, s.init.unwrap()).is_none()) {
            rec.label("system with a re-loaded state (init == next, not a literal)");
        }
        let depth = reach.min_any_bad().unwrap_or(1 + (cfg_bytes[3] as u32 / 3) % 5);
        if depth > 6 {
            rec.exclude("bad depth > 6");
            return Ok(());
        }
        // witnesses that consist of the initial state alone are the most common shape: keep half
        if depth == 0 && seed0 % 2 != 0 {
            rec.exclude("bad in the initial state (1 of 2 sub-sampled away)");
            return Ok(());
        }
        let profile_idx = (cfg_bytes[1] % 4) as usize;
        let (pname, _) = shim::profile(profile_idx);
        let has_array = case.sys.states.iter().any(|s| s.symbol.get_type(&case.ctx).is_array());
        if has_array && pname == "yices-smt2" {
            rec.exclude("array states with the yices profile (listed C02 finding)");
            return Ok(());
        }
        let engine = if use_pdr {
            Engine::Pdr { disable_cores: cfg_bytes[2] & 1 == 1 || pname == "yices-smt2" }
        } else {
            Engine::Bmc { individually: cfg_bytes[2] & 1 == 1, k: (depth as u64 + (cfg_bytes[3] % 3) as u64).max(1), check_constraints: false }
        };
        let mut prints = std::collections::HashSet::new();
        let mut wits: Vec<Witness> = vec![];
        for m in 0..3u64 {
            let mut ctx = case.ctx.clone();
            let scfg = ShimCfg { seed: seed0 + 1000 * m, core: ["z3", "rand", "min"][m as usize].into(), fault: None, log: None };
            rec.eval();
            let out = run_mc(&mut ctx, &case.sys, profile_idx, engine, &scfg);
            let conf = format!("engine={:?} profile={} seed={} (bad depth {})", engine, pname, scfg.seed, depth);
            match out {
                McOutcome::StartFailed(e) => return Err(Failure::new("harness/solver-start", e)),
                McOutcome::Fail(w) => {
                    rec.label(if use_pdr { "engine:pdr" } else { "engine:bmc" });
                    if let Err((kind, msg)) = validate_witness(&ctx, &case.sys, &w) {
                        let f = Failure::new(
                            format!("witness/{}/{}", if use_pdr { "pdr" } else { "bmc" }, kind),
                            format!("{}\nwitness {}\n{}\nsystem: {}", msg, show_witness(&w), conf, text),
                        );
                        if rec.tolerate("C03", &f) {
                            continue;
                        }
                        return Err(f);
                    }
                    if let Err((kind, msg)) = replay_in_interpreter(&ctx, &case.sys, &w) {
                        let f = Failure::new(
                            format!("witness/{}/{}", if use_pdr { "pdr" } else { "bmc" }, kind),
                            format!("{}\nwitness {}\n{}\nsystem: {}", msg, show_witness(&w), conf, text),
                        );
                        if rec.tolerate("C03", &f) {
                            continue;
                        }
                        return Err(f);
                    }
                    prints.insert(witness_fingerprint(&w));
                    wits.push(w);
                }
                other => {
                    // verdict problems are C02/C10's business; they are only tallied here
                    rec.label(&format!("no-witness:{}", other.name()));
                }
            }
        }
        if prints.len() >= 2 {
            rec.label("distinct-models>=2");
        }
        for w in wits.iter() {
            let long = w.inputs.len() >= 2 && !case.sys.inputs.is_empty();
            if (long || has_array) && prints.len() >= 2 {
                rec.nontrivial(witness_fingerprint(w));
                if rec.want_sample() {
                    rec.sample(format!("{} :: {}", show_witness(w), text));
                }
            }
        }
        let _ = (Val::Bv(Bv::zero(1)),);
        Ok(())
    }
}
