//! C14 — the SMT-LIB reader inverts the writer and reads solver model values correctly; malformed
//! text yields an error rather than a wrong value (in-process part; the end-to-end part through
//! SolverContext::get_value against the reference solver lives in c14e).

use crate::engine::*;
use crate::gen_expr::gen_case;
use crate::props::c05::{cmd_text, gen_cfg, name_ok};
use crate::refeval::{self, Env};
use crate::refval::{Arr, Bv, Val};
use crate::smtref::{self, SVal, Sort};
use crate::tape::{SplitMix, Tape, hash_bytes};
use patronus::expr::{Context, ExprRef, TypeCheck};
use patronus::smt::{Logic, SmtCommand, parse_command, parse_expr, read_command};
use rustc_hash::FxHashMap;

pub struct C14;

type St = FxHashMap<String, ExprRef>;

fn symtab(ctx: &Context, syms: &[ExprRef]) -> St {
    let mut st = St::default();
    for s in syms {
        st.insert(ctx.get_symbol_name(*s).unwrap().to_string(), *s);
    }
    st
}

fn equivalent(ctx: &Context, a: ExprRef, b: ExprRef, envs: &[Env]) -> Result<(), String> {
    if a == b {
        return Ok(());
    }
    if a.get_type(ctx) != b.get_type(ctx) {
        return Err(format!("type {:?} became {:?}", a.get_type(ctx), b.get_type(ctx)));
    }
    refeval::deep_type_check(ctx, &[b])?;
    for env in envs {
        let va = refeval::eval(ctx, env, a)?;
        let vb = refeval::eval(ctx, env, b).map_err(|e| format!("read-back term: {}", e))?;
        if !va.sem_eq(&vb) {
            return Err(format!(
                "original = {} but read-back = {} under {}",
                va.short(),
                vb.short(),
                crate::props::c01::show_env(ctx, env)
            ));
        }
    }
    Ok(())
}

fn err_class(e: &patronus::smt::SmtParserError) -> String {
    let s = format!("{:?}", e);
    s.split('(').next().unwrap_or("Err").to_string()
}

/// Paths (child indices) of the sites of an ill-sorted edit: atoms that are declared symbols, or
/// `(_ extract hi lo)` heads.
fn collect_sites(e: &smtref::SExpr, sc: &smtref::Scopes, extract: bool, path: &mut Vec<usize>, out: &mut Vec<Vec<usize>>) {
    match e {
        smtref::SExpr::Atom(_) => {
            if !extract && e.sym().map(|s| sc.get(s).is_some()).unwrap_or(false) {
                out.push(path.clone());
            }
        }
        smtref::SExpr::List(l) => {
            if extract
                && l.len() == 4
                && l[0].sym() == Some("_")
                && l[1].sym() == Some("extract")
                && l[2].numeral().is_some()
                && l[3].numeral().is_some()
            {
                out.push(path.clone());
                return;
            }
            // let binders are not operand positions
            let is_let = l.first().and_then(|x| x.sym()) == Some("let");
            for (i, c) in l.iter().enumerate() {
                if is_let && i == 1 {
                    // only the bound terms, not the names
                    if let smtref::SExpr::List(bs) = c {
                        for (j, b) in bs.iter().enumerate() {
                            if let smtref::SExpr::List(pair) = b {
                                if pair.len() == 2 {
                                    path.push(i);
                                    path.push(j);
                                    path.push(1);
                                    collect_sites(&pair[1], sc, extract, path, out);
                                    path.truncate(path.len() - 3);
                                }
                            }
                        }
                    }
                    continue;
                }
                if i == 0 && !extract {
                    // operator position
                    if matches!(c, smtref::SExpr::Atom(_)) {
                        continue;
                    }
                }
                path.push(i);
                collect_sites(c, sc, extract, path, out);
                path.pop();
            }
        }
    }
}

/// Paths of all sub-terms (not operator heads, indexed identifiers, sorts or binder names).
fn term_paths(e: &smtref::SExpr, path: &mut Vec<usize>, out: &mut Vec<Vec<usize>>) {
    match e {
        smtref::SExpr::Atom(_) => out.push(path.clone()),
        smtref::SExpr::List(l) => {
            let head = l.first().and_then(|x| x.sym());
            if head == Some("_") || head == Some("as") || l.is_empty() {
                return; // indexed identifier / qualified identifier: not a term position
            }
            out.push(path.clone());
            if head == Some("let") && l.len() == 3 {
                if let smtref::SExpr::List(bs) = &l[1] {
                    for (j, b) in bs.iter().enumerate() {
                        if let smtref::SExpr::List(pair) = b {
                            if pair.len() == 2 {
                                path.extend([1, j, 1]);
                                term_paths(&pair[1], path, out);
                                path.truncate(path.len() - 3);
                            }
                        }
                    }
                }
                path.push(2);
                term_paths(&l[2], path, out);
                path.pop();
                return;
            }
            for (i, c) in l.iter().enumerate().skip(1) {
                path.push(i);
                term_paths(c, path, out);
                path.pop();
            }
        }
    }
}

fn at_path<'a>(e: &'a smtref::SExpr, path: &[usize]) -> &'a smtref::SExpr {
    let mut cur = e;
    for i in path {
        cur = match cur {
            smtref::SExpr::List(l) => &l[*i],
            a => a,
        };
    }
    cur
}

fn at_path_mut<'a>(e: &'a mut smtref::SExpr, path: &[usize]) -> &'a mut smtref::SExpr {
    let mut cur = e;
    for i in path {
        cur = match cur {
            smtref::SExpr::List(l) => &mut l[*i],
            a => a,
        };
    }
    cur
}

/// Random model value of a sort, printed in a solver style.
fn gen_value(t: &mut Tape, sort: &Sort) -> SVal {
    match sort {
        Sort::Bool => SVal::boolean(t.flag()),
        Sort::BV(w) => SVal::B(sort.clone(), Bv::new(*w, t.bits(*w))),
        Sort::Array(i, d) => {
            let iw = i.width();
            let dw = d.width();
            let mut a = Arr::constant(iw, &Bv::new(dw, t.bits(dw)));
            let n = t.below(5);
            for _ in 0..n {
                a = a.store(&Bv::new(iw, t.bits(iw)), &Bv::new(dw, t.bits(dw)));
            }
            SVal::A(sort.clone(), a)
        }
    }
}

/// Print an array/bv value the way solvers do, with tape-chosen style: binary/hex, store chains with
/// duplicate (shadowed) indices, let-bound sub-terms, extra whitespace / comments / line breaks.
fn print_model_value(t: &mut Tape, v: &SVal) -> (String, bool) {
    let hex = t.flag();
    let style = if hex { 1 } else { 0 };
    let mut nontrivial = false;
    let mut s = match v {
        SVal::B(..) => smtref::print_value(v, style),
        SVal::A(sort, a) => {
            let Sort::Array(i, d) = sort else { unreachable!() };
            let mut chain: Vec<(Bv, Bv)> =
                a.map.iter().map(|(k, v)| (Bv::new(a.iw, k.clone()), Bv::new(a.dw, v.clone()))).collect();
            // shadowed duplicate: an earlier store to an index that is overwritten later
            if !chain.is_empty() && t.chance(80) {
                let (k, _) = chain[0].clone();
                chain.insert(0, (k, Bv::new(a.dw, t.bits(a.dw))));
            }
            // random order is fine for distinct indices; keep duplicates ordered
            let base = format!(
                "((as const {}) {})",
                sort.to_smt(),
                smtref::print_bv(d, &Bv::new(a.dw, a.default.clone()), style)
            );
            let use_let = chain.len() >= 2 && t.chance(100);
            if chain.len() >= 2 || use_let {
                nontrivial = true;
            }
            if use_let {
                let (k0, v0) = &chain[0];
                let inner = format!(
                    "(store {} {} {})",
                    base,
                    smtref::print_bv(i, k0, style),
                    smtref::print_bv(d, v0, style)
                );
                let mut out = "a!1".to_string();
                for (k, val) in chain[1..].iter() {
                    out = format!(
                        "(store {} {} {})",
                        out,
                        smtref::print_bv(i, k, style),
                        smtref::print_bv(d, val, style)
                    );
                }
                format!("(let ((a!1 {})) {})", inner, out)
            } else {
                let mut out = base;
                for (k, val) in chain.iter() {
                    out = format!(
                        "(store {} {} {})",
                        out,
                        smtref::print_bv(i, k, style),
                        smtref::print_bv(d, val, style)
                    );
                }
                out
            }
        }
    };
    // whitespace / comments
    match t.below(7) {
        1 => s = s.replace(' ', "\n  "),
        2 => s = s.replace(") ", ") ; comment\n "),
        3 => s = format!("  {}  ", s.replace(" (", "   (")),
        // comment shapes at the edges of the lexer's states: empty, one character, CR LF line ends,
        // a comment that ends with the input
        4 => s = s.replace(") ", ") ;\n "),
        5 => s = s.replace(' ', " ;x\r\n "),
        6 => s = format!("{} ; trailing comment without a line end", s.replace(") ", ");\r ")),
        _ => {}
    }
    (s, nontrivial)
}

fn all_plain_commands() -> Vec<SmtCommand> {
    vec![
        SmtCommand::Exit,
        SmtCommand::CheckSat,
        SmtCommand::SetLogic(Logic::All),
        SmtCommand::SetLogic(Logic::QfAufbv),
        SmtCommand::SetLogic(Logic::QfAbv),
        SmtCommand::SetLogic(Logic::QfBv),
        SmtCommand::SetOption("produce-models".into(), "true".into()),
        SmtCommand::SetOption("incremental".into(), "false".into()),
        SmtCommand::SetInfo("status".into(), "sat".into()),
        SmtCommand::SetInfo("source".into(), "patronus".into()),
        SmtCommand::Push(1),
        SmtCommand::Push(3),
        SmtCommand::Pop(1),
        SmtCommand::Pop(2),
        SmtCommand::GetUnsatAssumptions,
    ]
}

fn cmd_kind(c: &SmtCommand) -> &'static str {
    match c {
        SmtCommand::Exit => "Exit",
        SmtCommand::CheckSat => "CheckSat",
        SmtCommand::SetLogic(_) => "SetLogic",
        SmtCommand::SetOption(..) => "SetOption",
        SmtCommand::SetInfo(..) => "SetInfo",
        SmtCommand::Assert(_) => "Assert",
        SmtCommand::DeclareConst(_) => "DeclareConst",
        SmtCommand::DefineConst(..) => "DefineConst",
        SmtCommand::CheckSatAssuming(_) => "CheckSatAssuming",
        SmtCommand::Push(_) => "Push",
        SmtCommand::Pop(_) => "Pop",
        SmtCommand::GetValue(_) => "GetValue",
        SmtCommand::GetUnsatAssumptions => "GetUnsatAssumptions",
    }
}

/// Compare a read-back command with the original (expression parts by equivalence).
fn same_command(ctx: &Context, a: &SmtCommand, b: &SmtCommand, envs: &[Env]) -> Result<(), String> {
    use SmtCommand::*;
    match (a, b) {
        (Assert(x), Assert(y)) | (GetValue(x), GetValue(y)) => equivalent(ctx, *x, *y, envs),
        (DeclareConst(x), DeclareConst(y)) => {
            if x == y { Ok(()) } else { Err(format!("declared symbol differs: {} vs {}", refeval::show(ctx, *x), refeval::show(ctx, *y))) }
        }
        (DefineConst(s1, x), DefineConst(s2, y)) => {
            if s1 != s2 {
                return Err(format!("defined symbol differs: {} vs {}", refeval::show(ctx, *s1), refeval::show(ctx, *s2)));
            }
            equivalent(ctx, *x, *y, envs)
        }
        (CheckSatAssuming(xs), CheckSatAssuming(ys)) => {
            if xs.len() != ys.len() {
                return Err(format!("{} assumptions were written, {} read back", xs.len(), ys.len()));
            }
            for (x, y) in xs.iter().zip(ys.iter()) {
                equivalent(ctx, *x, *y, envs)?;
            }
            Ok(())
        }
        (x, y) => {
            if x == y { Ok(()) } else { Err(format!("{:?} read back as {:?}", x, y)) }
        }
    }
}

/// A stream that turns reading at its end for the fifth time into an I/O error: a reader that never
/// finds the end of a command (and would poll the exhausted stream forever) then returns, and the
/// case is judged instead of being killed by the watchdog.
struct EofGuard {
    inner: std::io::Cursor<Vec<u8>>,
    eofs: u32,
}

impl EofGuard {
    fn new(text: &str) -> Self {
        EofGuard { inner: std::io::Cursor::new(text.as_bytes().to_vec()), eofs: 0 }
    }
}

impl std::io::Read for EofGuard {
    fn read(&mut self, buf: &mut [u8]) -> std::io::Result<usize> {
        self.inner.read(buf)
    }
}

impl std::io::BufRead for EofGuard {
    fn fill_buf(&mut self) -> std::io::Result<&[u8]> {
        let at_end = self.inner.position() as usize >= self.inner.get_ref().len();
        if at_end {
            self.eofs += 1;
            if self.eofs > 4 {
                return Err(std::io::Error::other("the reader keeps polling the stream after its end"));
            }
        }
        self.inner.fill_buf()
    }
    fn consume(&mut self, amt: usize) {
        self.inner.consume(amt)
    }
}

/// names of the pinned constants of the end-to-end part: plain, or generated from the broad alphabet
/// (the solver echoes the name in its `get-value` reply, quoted where necessary)
fn e2e_name(t: &mut Tape, base: &str, k: u32) -> String {
    if t.chance(96) {
        let n = crate::gen_expr::random_name(t, &['|', '\\'], &k.to_string());
        // the backend z3 reads unquoted symbols such as `-0` as numerals (SMT-LIB makes them symbols),
        // and control characters are not portable: such names stay with the in-process parts
        let first = n.chars().next().unwrap_or('a');
        let portable = (smtref::needs_quoting(&n) || first.is_ascii_alphabetic() || first == '_') && !n.chars().any(|c| c.is_control());
        if name_ok(&n) && portable {
            return n;
        }
    }
    format!("{}{}", base, k)
}

impl C14 {
    fn roundtrip_command(
        &self,
        ctx: &mut Context,
        st: &St,
        cmd: &SmtCommand,
        envs: &[Env],
        via_read_command: bool,
    ) -> Result<String, Failure> {
        let kind = cmd_kind(cmd);
        let text = cmd_text(ctx, cmd)
            .map_err(|p| Failure::new(format!("smt-read/write-panicked/{}", kind), p.msg.clone()))?;
        let parsed = if via_read_command {
            let mut st2 = st.clone();
            let mut input = EofGuard::new(&text);
            match guard(|| read_command(&mut input, ctx, &mut st2)) {
                Err(p) => {
                    return Err(Failure::new(
                        format!("smt-read/read_command/{}/{}", kind, p.class()),
                        format!("`{}`: panic {}:{} {}", text.trim(), p.file, p.line, p.msg),
                    ));
                }
                Ok(Err(e)) => {
                    return Err(Failure::new(
                        format!("smt-read/read_command/{}/io-error", kind),
                        format!("`{}`: {}", text.trim(), e),
                    ));
                }
                Ok(Ok(None)) => {
                    return Err(Failure::new(
                        format!("smt-read/read_command/{}/none", kind),
                        format!("`{}` read as end of input", text.trim()),
                    ));
                }
                Ok(Ok(Some(c))) => c,
            }
        } else {
            match guard(|| parse_command(ctx, st, text.as_bytes())) {
                Err(p) => {
                    return Err(Failure::new(
                        format!("smt-read/parse_command/{}/{}", kind, p.class()),
                        format!("`{}`: panic {}:{} {}", text.trim(), p.file, p.line, p.msg),
                    ));
                }
                Ok(Err(e)) => {
                    return Err(Failure::new(
                        format!("smt-read/parse_command/{}/rejected-{}", kind, err_class(&e)),
                        format!("`{}` was rejected: {}", text.trim(), e),
                    ));
                }
                Ok(Ok(c)) => c,
            }
        };
        if let Err(m) = same_command(ctx, cmd, &parsed, envs) {
            let which = if via_read_command { "read_command" } else { "parse_command" };
            return Err(Failure::new(
                format!("smt-read/{}/{}/{}", which, kind, if cmd_kind(&parsed) != kind { "wrong-kind" } else { "not-equivalent" }),
                format!("`{}`: {}", text.trim(), m),
            ));
        }
        Ok(text)
    }
}

impl C14 {
    /// (v) end to end: SolverContext::get_value against the reference solver with constants pinned
    /// by assertions; the shim re-prints values in randomly chosen legal spellings
    fn end_to_end(&self, t: &mut Tape, rec: &mut Recorder) -> Result<(), Failure> {
        use crate::shim::{self, ShimCfg};
        use patronus::smt::{CheckSatResponse, Logic, Solver, SolverContext};
        let profile_idx = t.below(4) as usize;
        let (pname, solver) = shim::profile(profile_idx);
        let seed = 1 + t.u16() as u64;
        shim::apply(&ShimCfg { seed, core: "z3".into(), fault: None, log: None });
        let mut ctx = Context::default();
        let n = 1 + t.below(4);
        let mut pinned: Vec<(ExprRef, Val)> = vec![];
        for k in 0..n {
            let arr = pname != "yices-smt2" && t.chance(90);
            if arr {
                let iw = t.range(1, 3);
                let dw = if t.chance(64) { 1 } else { t.range(2, 9) };
                let sym = ctx.array_symbol(&e2e_name(t, "m", k), iw, dw);
                let mut a = Arr::constant(iw, &Bv::new(dw, t.bits(dw)));
                for _ in 0..t.below(4) {
                    a = a.store(&Bv::new(iw, t.bits(iw)), &Bv::new(dw, t.bits(dw)));
                }
                pinned.push((sym, Val::Arr(a)));
            } else {
                let w = match t.below(4) {
                    0 => 1,
                    1 => t.range(2, 8),
                    2 => 4 * t.range(1, 20),
                    _ => t.range(9, 130),
                };
                let sym = ctx.bv_symbol(&e2e_name(t, "c", k), w);
                pinned.push((sym, Val::Bv(Bv::new(w, t.bits(w)))));
            }
        }
        let fail = |sig: String, msg: String| Failure::new(sig, format!("{} (profile {}, shim seed {})", msg, pname, seed));
        let r = guard(|| -> Result<Vec<(ExprRef, ExprRef)>, String> {
            let e = |x: patronus::smt::Error| format!("{}", x);
            let mut s = solver.start(None).map_err(|x| format!("START:{}", x))?;
            s.set_logic(Logic::All).map_err(e)?;
            for (sym, v) in pinned.iter() {
                s.declare_const(&ctx, *sym).map_err(e)?;
                let lit = match v {
                    Val::Bv(b) => ctx.bv_lit(&b.to_baa()),
                    Val::Arr(a) => {
                        let d = ctx.bv_lit(&Bv::new(a.dw, a.default.clone()).to_baa());
                        let mut x = ctx.array_const(d, a.iw);
                        for (k, val) in a.map.iter() {
                            let i = ctx.bv_lit(&Bv::new(a.iw, k.clone()).to_baa());
                            let dv = ctx.bv_lit(&Bv::new(a.dw, val.clone()).to_baa());
                            x = ctx.array_store(x, i, dv);
                        }
                        x
                    }
                };
                let eq = ctx.equal(*sym, lit);
                s.assert(&ctx, eq).map_err(e)?;
            }
            match s.check_sat().map_err(e)? {
                CheckSatResponse::Sat => {}
                other => return Err(format!("pinned constants are not satisfiable: {:?}", other)),
            }
            let mut out = vec![];
            for (sym, _) in pinned.iter() {
                let v = s.get_value(&mut ctx, *sym).map_err(e)?;
                out.push((*sym, v));
            }
            Ok(out)
        });
        let values = match r {
            Err(p) => {
                return Err(fail(format!("smt-read/get_value/{}", p.class()), format!("panic {}:{} {}", p.file, p.line, p.msg)));
            }
            Ok(Err(m)) => {
                if m.starts_with("START:") {
                    return Err(Failure::new("harness/solver-start", m));
                }
                if m.contains("refsolver internal") || m.contains("refsolver backend disagrees") {
                    return Err(Failure::new("harness/reference-solver", m));
                }
                let kind = if m.contains("failed to parse") { "response-rejected" } else { "error" };
                return Err(fail(format!("smt-read/get_value/{}", kind), m));
            }
            Ok(Ok(v)) => v,
        };
        for ((sym, exp), (_, got)) in pinned.iter().zip(values.iter()) {
            let class = match exp {
                Val::Bv(b) if b.w == 1 => "bool".to_string(),
                Val::Bv(b) => format!("bv-{}", crate::props::c06::wclass(b.w)),
                Val::Arr(a) => format!("array-{}{}", if a.iw == 1 { "boolidx" } else { "bvidx" }, if a.dw == 1 { "-booldata" } else { "" }),
            };
            let gv = match refeval::eval(&ctx, &Env::default(), *got) {
                Ok(v) => v,
                Err(m) => {
                    return Err(fail(
                        format!("smt-read/get_value/{}/not-a-value", class),
                        format!("get_value({}) returned {} : {}", refeval::show(&ctx, *sym), refeval::show(&ctx, *got), m),
                    ));
                }
            };
            if !gv.sem_eq(exp) {
                return Err(fail(
                    format!("smt-read/get_value/{}/wrong-value", class),
                    format!("get_value({}) = {} but the solver holds {}", refeval::show(&ctx, *sym), gv.short(), exp.short()),
                ));
            }
            rec.label(&format!("v:get_value:{}", class));
        }
        rec.nontrivial(hash_bytes(format!("{:?}{}", pinned.iter().map(|p| p.1.short()).collect::<Vec<_>>(), seed).as_bytes()));
        if rec.want_sample() {
            rec.sample(format!(
                "(v) get_value via {}: {}",
                pname,
                pinned.iter().map(|(s, v)| format!("{}={}", refeval::show(&ctx, *s), v.short())).collect::<Vec<_>>().join(" ")
            ));
        }
        Ok(())
    }
}

impl Prop for C14 {
    fn id(&self) -> &'static str {
        "C14"
    }
    fn fuzz_target(&self) -> Option<&'static str> {
        Some("c14_bytes")
    }
    fn run_bytes(&self, data: &[u8], _rec: &mut Recorder) -> Result<(), Failure> {
        crate::fuzz::c14_bytes_judge(data)
    }
    fn isolated(&self) -> bool {
        true
    }
    fn setup(&self, _tier: Tier) -> Result<(), String> {
        crate::shim::install().map(|_| ())
    }
    fn rule(&self) -> String {
        "(i) every SmtCommand variant and tape-decoded terms (as C05) written by serialize_cmd and read back with parse_expr / parse_command / read_command given the declared symbols: same command kind, same type, reference-evaluator equal under all (<= 10 bits) or 8 sampled assignments; in a third of the parse_expr cases 1-3 sub-terms N of the written text are wrapped as (let ((x N)) x), x fresh or the name of a declared symbol (shadowing), which denotes the same value: a rejection is tolerated and counted, a different value is a failure; (ii) random bit-vector/array model values (Bool, 1..200 bit, arrays incl. Bool index/data) printed by the independent printer in solver styles (binary, hex, true/false, store chains over as const with shadowed duplicate indices, let-bound sub-terms, extra whitespace/comments/line breaks) and read with parse_expr: value must equal the value printed; (iii) single-edit malformed variants (truncation inside a parenthesis, missing ')', extra ')', unterminated | or \") that the independent reader rejects: outcome must be Err, or Ok with the original's meaning; a panic or a different value fails; (iv) ill-sorted variants of writer output that the independent strict sort checker rejects (one operand replaced by a declared symbol of another sort; extract bounds reversed or beyond the operand): outcome must be Err, or Ok with an expression that type-checks node by node (a lenient reading such as `not` of a wider vector is not a wrong value); a panic or an ill-typed result fails; (v) end to end: SolverContext::get_value through the real SmtLibSolverCtx against the reference solver (all four profiles) with constants of Bool / 2-130 bit / array sorts pinned by assertions, the shim printing values in randomly chosen legal spellings: the value read must equal the pinned value. Non-trivial: (i) compound term with a coercion or n-ary form, (ii) array value with >= 2 stores or a let, (iii) every single-edit text; distinct by hash of the text.".into()
    }
    fn budget(&self, tier: Tier) -> Budget {
        match tier {
            Tier::Quick => Budget { cases: 100_000, max_tape: 320 },
            Tier::Thorough => Budget { cases: 2_000_000, max_tape: 640 },
        }
    }
    fn items(&self, _tier: Tier) -> u64 {
        all_plain_commands().len() as u64 * 2
    }
    fn run_item(&self, idx: u64, _tier: Tier, rec: &mut Recorder) -> Result<(), Failure> {
        let cmds = all_plain_commands();
        let cmd = &cmds[(idx / 2) as usize];
        let mut ctx = Context::default();
        let st = St::default();
        rec.eval();
        rec.label(&format!("plain-cmd:{}", cmd_kind(cmd)));
        let text = self.roundtrip_command(&mut ctx, &st, cmd, &[], idx % 2 == 1)?;
        rec.nontrivial(hash_bytes(text.as_bytes()) ^ idx);
        Ok(())
    }
    fn run_tape(&self, tape: &[u8], tier: Tier, rec: &mut Recorder) -> Result<(), Failure> {
        let mut t = Tape::new(tape);
        let sub = t.weighted(&[100, 60, 80, 3]);
        rec.eval();
        if sub == 3 {
            return self.end_to_end(&mut t, rec);
        }
        match sub {
            // ---------------- (i) writer output
            0 => {
                let kind = t.below(7);
                let mut case = gen_case(&mut t, &gen_cfg(tier), 4);
                let roots = case.roots.clone();
                let syms = case.symbols.clone();
                if syms.iter().any(|s| !name_ok(case.ctx.get_symbol_name(*s).unwrap())) {
                    rec.exclude("name not expressible in SMT-LIB");
                    return Ok(());
                }
                let st = symtab(&case.ctx, &syms);
                let mut rng = SplitMix(hash_bytes(tape));
                let used = refeval::symbols_of(&case.ctx, &roots);
                let dict = crate::props::c01::dictionary(&case.ctx, &roots);
                let (envs, _) = crate::props::c01::assignments_with(&case.ctx, &used, &mut rng, 10, 8, &dict);
                let ctx = &mut case.ctx;
                let bool_roots: Vec<ExprRef> =
                    roots.iter().copied().filter(|r| r.get_bv_type(ctx) == Some(1)).collect();
                let via_read = t.flag();
                let text = match kind {
                    0 => {
                        // bare term through parse_expr
                        rec.label("i:parse_expr");
                        let full = cmd_text(ctx, &SmtCommand::GetValue(roots[0]))
                            .map_err(|p| Failure::new("smt-read/write-panicked/term", p.msg.clone()))?;
                        let body = full.trim();
                        let body = body
                            .strip_prefix("(get-value (")
                            .and_then(|b| b.strip_suffix("))"))
                            .ok_or_else(|| Failure::new("harness/c14", format!("unexpected get-value text {}", body)))?
                            .to_string();
                        // let-wrapped variant: 1-3 sub-terms N are replaced by (let ((x N)) x), which denotes
                        // N whatever x is - a fresh name or the name of a declared symbol (shadowing)
                        let mut wrapped = false;
                        let body = if t.chance(90) {
                            match smtref::read_one(&body) {
                                Ok(mut e) => {
                                    let n_wraps = 1 + t.below(3);
                                    for k in 0..n_wraps {
                                        let mut paths = vec![];
                                        term_paths(&e, &mut vec![], &mut paths);
                                        if paths.is_empty() {
                                            break;
                                        }
                                        let path = paths[t.below(paths.len() as u32) as usize].clone();
                                        let name = if t.flag() && !syms.is_empty() {
                                            let s = syms[t.below(syms.len() as u32) as usize];
                                            ctx.get_symbol_name(s).unwrap().to_string()
                                        } else {
                                            format!("x!{}", k)
                                        };
                                        let node = at_path(&e, &path).clone();
                                        let sym = smtref::SExpr::Atom(smtref::Atom::Symbol(name));
                                        let letx = smtref::SExpr::List(vec![
                                            smtref::SExpr::Atom(smtref::Atom::Symbol("let".into())),
                                            smtref::SExpr::List(vec![smtref::SExpr::List(vec![sym.clone(), node])]),
                                            sym,
                                        ]);
                                        *at_path_mut(&mut e, &path) = letx;
                                        wrapped = true;
                                    }
                                    smtref::print_sexpr(&e)
                                }
                                Err(_) => body,
                            }
                        } else {
                            body
                        };
                        if wrapped {
                            rec.label("i:parse_expr/let-wrapped");
                        }
                        match guard(|| parse_expr(ctx, &st, body.as_bytes())) {
                            Err(p) => {
                                return Err(Failure::new(
                                    format!("smt-read/parse_expr/{}", p.class()),
                                    format!("`{}`: panic {}:{} {}", body, p.file, p.line, p.msg),
                                ));
                            }
                            Ok(Err(_)) if wrapped => {
                                // a reader may decline shadowing forms; only a wrong value is held against it
                                rec.label("i:parse_expr/let-wrapped/rejected");
                            }
                            Ok(Err(e)) => {
                                return Err(Failure::new(
                                    format!("smt-read/parse_expr/rejected-{}", err_class(&e)),
                                    format!("`{}` was rejected: {}", body, e),
                                ));
                            }
                            Ok(Ok(r)) => {
                                if let Err(m) = equivalent(ctx, roots[0], r, &envs) {
                                    return Err(Failure::new(
                                        format!("smt-read/parse_expr/not-equivalent{}/{}", if wrapped { "/let-wrapped" } else { "" }, refeval::op_name(&ctx[roots[0]])),
                                        format!("`{}`: {}\noriginal: {}\nread: {}", body, m, refeval::show(ctx, roots[0]), refeval::show(ctx, r)),
                                    ));
                                }
                            }
                        }
                        body
                    }
                    1 if !bool_roots.is_empty() => {
                        rec.label("i:Assert");
                        self.roundtrip_command(ctx, &st, &SmtCommand::Assert(bool_roots[0]), &envs, via_read)?
                    }
                    2 => {
                        rec.label("i:DeclareConst");
                        let s = syms[t.below(syms.len() as u32) as usize];
                        self.roundtrip_command(ctx, &st, &SmtCommand::DeclareConst(s), &envs, via_read)?
                    }
                    3 => {
                        rec.label("i:DefineConst");
                        let tpe = roots[0].get_type(ctx);
                        let name = ctx.string("fresh def".into());
                        let fresh = ctx.symbol(name, tpe);
                        self.roundtrip_command(ctx, &st, &SmtCommand::DefineConst(fresh, roots[0]), &envs, via_read)?
                    }
                    4 => {
                        let n = (t.below(5) as usize).min(bool_roots.len());
                        rec.label(&format!("i:CheckSatAssuming({})", n));
                        let ts: Vec<ExprRef> = bool_roots[..n].to_vec();
                        self.roundtrip_command(ctx, &st, &SmtCommand::CheckSatAssuming(ts), &envs, via_read)?
                    }
                    5 => {
                        rec.label("i:GetValue");
                        self.roundtrip_command(ctx, &st, &SmtCommand::GetValue(roots[0]), &envs, via_read)?
                    }
                    _ => {
                        // a whole script in one stream, read back command by command with read_command
                        // (which keeps its own symbol table): nothing may be lost, merged or reordered
                        rec.label("i:script");
                        let mut script: Vec<SmtCommand> = vec![SmtCommand::SetLogic(Logic::All)];
                        let plain = all_plain_commands();
                        for s in syms.iter() {
                            script.push(SmtCommand::DeclareConst(*s));
                            if t.chance(40) {
                                script.push(plain[t.below(plain.len() as u32) as usize].clone());
                            }
                        }
                        for b in bool_roots.iter().take(2) {
                            script.push(SmtCommand::Assert(*b));
                        }
                        if t.flag() {
                            script.push(SmtCommand::CheckSatAssuming(bool_roots.iter().copied().take(t.below(3) as usize).collect()));
                        } else {
                            script.push(SmtCommand::CheckSat);
                        }
                        script.push(SmtCommand::GetValue(roots[0]));
                        script.push(SmtCommand::Exit);
                        let mut text = String::new();
                        for c in script.iter() {
                            let one = cmd_text(ctx, c)
                                .map_err(|p| Failure::new(format!("smt-read/write-panicked/{}", cmd_kind(c)), p.msg.clone()))?;
                            text.push_str(one.trim_end());
                            text.push('\n');
                        }
                        let mut st2 = St::default();
                        let mut input = EofGuard::new(&text);
                        let mut back: Vec<SmtCommand> = vec![];
                        loop {
                            if back.len() > script.len() + 2 {
                                break;
                            }
                            match guard(|| read_command(&mut input, ctx, &mut st2)) {
                                Err(p) => {
                                    return Err(Failure::new(
                                        format!("smt-read/read_command/script/{}", p.class()),
                                        format!("after {} commands: panic {}:{} {}\n{}", back.len(), p.file, p.line, p.msg, text),
                                    ));
                                }
                                Ok(Err(e)) => {
                                    return Err(Failure::new("smt-read/read_command/script/io-error", format!("{}\n{}", e, text)));
                                }
                                Ok(Ok(None)) => break,
                                Ok(Ok(Some(c))) => back.push(c),
                            }
                        }
                        if back.len() != script.len() {
                            return Err(Failure::new(
                                "smt-read/read_command/script/command-count",
                                format!(
                                    "{} commands written, {} read back: {:?}\n{}",
                                    script.len(),
                                    back.len(),
                                    back.iter().map(cmd_kind).collect::<Vec<_>>(),
                                    text
                                ),
                            ));
                        }
                        for (k, (a, b)) in script.iter().zip(back.iter()).enumerate() {
                            if let Err(m) = same_command(ctx, a, b, &envs) {
                                return Err(Failure::new(
                                    format!("smt-read/read_command/script/{}/{}", cmd_kind(a), if cmd_kind(a) != cmd_kind(b) { "wrong-kind" } else { "not-equivalent" }),
                                    format!("command {}: {}\n{}", k, m, text),
                                ));
                            }
                        }
                        text
                    }
                };
                if roots.iter().any(|r| !crate::props::c05::coercion_sites(ctx, *r).is_empty()) {
                    rec.nontrivial(hash_bytes(text.as_bytes()));
                    if rec.want_sample() && text.len() < 300 {
                        rec.sample(format!("(i) {}", text.trim()));
                    }
                }
                Ok(())
            }
            // ---------------- (ii) model values
            1 => {
                let sort = match t.below(4) {
                    0 => Sort::Bool,
                    1 | 2 => Sort::BV(match t.below(4) {
                        0 => t.range(2, 8),
                        1 => 4 * t.range(1, 50),
                        2 => t.range(9, 200),
                        _ => *t.pick(&[8u32, 16, 32, 64, 128]),
                    }),
                    _ => {
                        let i = if t.chance(64) { Sort::Bool } else { Sort::BV(t.range(2, 12)) };
                        let d = if t.chance(64) { Sort::Bool } else { Sort::BV(t.range(2, 70)) };
                        Sort::Array(Box::new(i), Box::new(d))
                    }
                };
                let v = gen_value(&mut t, &sort);
                let (text, nt) = print_model_value(&mut t, &v);
                // my own reader must agree with my own printer (harness self-check)
                let reread = smtref::read_one(&text)
                    .and_then(|sx| {
                        let sc = smtref::Scopes::new();
                        smtref::sort_of(&sx, &sc, &mut vec![])?;
                        smtref::eval(&sx, &sc, &smtref::ValEnv::new(), &mut vec![])
                    })
                    .map_err(|e| Failure::new("harness/c14-printer", format!("`{}`: {}", text, e)))?;
                if !smtref::sval_eq(&reread, &v) {
                    return Err(Failure::new("harness/c14-printer", format!("printer/reader disagree on `{}`", text)));
                }
                rec.label(match &sort {
                    Sort::Bool => "ii:bool",
                    Sort::BV(_) => "ii:bitvec",
                    Sort::Array(..) => "ii:array",
                });
                let mut ctx = Context::default();
                let st = St::default();
                let class = match &sort {
                    Sort::Bool => "bool".to_string(),
                    Sort::BV(w) => format!("bv-{}", crate::props::c06::wclass(*w)),
                    Sort::Array(i, d) => format!(
                        "array-{}-{}{}",
                        if **i == Sort::Bool { "boolidx" } else { "bvidx" },
                        if **d == Sort::Bool { "booldata" } else { "bvdata" },
                        if text.contains("let") { "-let" } else { "" }
                    ),
                };
                match guard(|| parse_expr(&mut ctx, &st, text.as_bytes())) {
                    Err(p) => {
                        return Err(Failure::new(
                            format!("smt-read/model-value/{}/{}", class, p.class()),
                            format!("`{}`: panic {}:{} {}", text, p.file, p.line, p.msg),
                        ));
                    }
                    Ok(Err(e)) => {
                        return Err(Failure::new(
                            format!("smt-read/model-value/{}/rejected-{}", class, err_class(&e)),
                            format!("`{}` was rejected: {}", text, e),
                        ));
                    }
                    Ok(Ok(r)) => {
                        let got = refeval::eval(&ctx, &Env::default(), r)
                            .map_err(|e| Failure::new(format!("smt-read/model-value/{}/not-a-value", class), e))?;
                        let exp: Val = v.to_val();
                        if !got.sem_eq(&exp) {
                            return Err(Failure::new(
                                format!("smt-read/model-value/{}/wrong-value", class),
                                format!("`{}` read as {} but denotes {}", text, got.short(), exp.short()),
                            ));
                        }
                    }
                }
                if nt {
                    rec.nontrivial(hash_bytes(text.as_bytes()));
                    if rec.want_sample() && text.len() < 300 {
                        rec.sample(format!("(ii) {}", text));
                    }
                }
                Ok(())
            }
            // ---------------- (iii) malformed variants
            _ => {
                let mut case = gen_case(&mut t, &gen_cfg(tier), 1);
                let root = case.roots[0];
                let syms = case.symbols.clone();
                if syms.iter().any(|s| !name_ok(case.ctx.get_symbol_name(*s).unwrap())) {
                    rec.exclude("name not expressible in SMT-LIB");
                    return Ok(());
                }
                let st = symtab(&case.ctx, &syms);
                let ctx = &mut case.ctx;
                let as_cmd = t.flag() && root.get_bv_type(ctx) == Some(1);
                let good = if as_cmd {
                    cmd_text(ctx, &SmtCommand::Assert(root))
                } else {
                    cmd_text(ctx, &SmtCommand::GetValue(root)).map(|f| {
                        f.trim()
                            .strip_prefix("(get-value (")
                            .and_then(|b| b.strip_suffix("))"))
                            .unwrap_or("")
                            .to_string()
                    })
                }
                .map_err(|p| Failure::new("smt-read/write-panicked/term", p.msg.clone()))?;
                let good = good.trim().to_string();
                if good.is_empty() {
                    return Ok(());
                }
                let chars: Vec<char> = good.chars().collect();
                let edit = t.below(7);
                let bad: String = match edit {
                    5 | 6 => {
                        // (iv) ill-sorted variants of well-formed text: an operand replaced by a
                        // declared symbol of another sort, or extract bounds outside the operand
                        let sc = crate::props::c05::declare_all(ctx, &syms)?;
                        let Ok(parsed) = smtref::read_one(&good) else { return Ok(()) };
                        let mut sites: Vec<Vec<usize>> = vec![];
                        collect_sites(&parsed, &sc, edit == 6, &mut vec![], &mut sites);
                        if sites.is_empty() {
                            rec.exclude("no site for an ill-sorted edit");
                            return Ok(());
                        }
                        let site = sites[t.below(sites.len() as u32) as usize].clone();
                        let mut edited = parsed.clone();
                        let ok = if edit == 5 {
                            let decl = sc.declared_consts();
                            let old = at_path(&parsed, &site).sym().unwrap_or("").to_string();
                            let old_sort = sc.get(&old).map(|b| b.sort.clone());
                            let others: Vec<&(String, Sort)> =
                                decl.iter().filter(|(_, srt)| Some(srt) != old_sort.as_ref()).collect();
                            if others.is_empty() {
                                false
                            } else {
                                let (name, _) = others[t.below(others.len() as u32) as usize];
                                *at_path_mut(&mut edited, &site) = smtref::SExpr::Atom(smtref::Atom::Symbol(name.clone()));
                                true
                            }
                        } else {
                            // site = path of an `(_ extract hi lo)` list
                            if let smtref::SExpr::List(l) = at_path_mut(&mut edited, &site) {
                                let hi = l[2].numeral().unwrap_or(0);
                                let lo = l[3].numeral().unwrap_or(0);
                                if t.flag() || hi == lo {
                                    l[2] = smtref::SExpr::Atom(smtref::Atom::Numeral((hi + 1 + t.below(300) as u64).to_string()));
                                } else {
                                    l[2] = smtref::SExpr::Atom(smtref::Atom::Numeral(lo.to_string()));
                                    l[3] = smtref::SExpr::Atom(smtref::Atom::Numeral(hi.to_string()));
                                }
                                true
                            } else {
                                false
                            }
                        };
                        if !ok {
                            rec.exclude("no symbol of another sort declared");
                            return Ok(());
                        }
                        // keep only variants that the strict sort checker rejects
                        let term = if as_cmd { edited.list().and_then(|l| l.get(1)).cloned() } else { Some(edited.clone()) };
                        let Some(term) = term else { return Ok(()) };
                        if smtref::sort_of(&term, &sc, &mut vec![]).is_ok() {
                            rec.exclude("edit produced a well-sorted text");
                            return Ok(());
                        }
                        smtref::print_sexpr(&edited)
                    }
                    0 => {
                        // truncate strictly inside the outermost parenthesis
                        let cut = 1 + t.below(chars.len().saturating_sub(1).max(1) as u32) as usize;
                        chars[..cut.min(chars.len())].iter().collect()
                    }
                    1 => {
                        // delete one ')'
                        let closes: Vec<usize> =
                            chars.iter().enumerate().filter(|(_, c)| **c == ')').map(|(i, _)| i).collect();
                        if closes.is_empty() {
                            return Ok(());
                        }
                        let k = closes[t.below(closes.len() as u32) as usize];
                        chars.iter().enumerate().filter(|(i, _)| *i != k).map(|(_, c)| *c).collect()
                    }
                    2 => format!("{})", good),
                    3 => {
                        let k = t.below(chars.len() as u32 + 1) as usize;
                        let mut s: String = chars[..k].iter().collect();
                        s.push_str(" |unterminated ");
                        s.extend(chars[k..].iter());
                        s
                    }
                    _ => {
                        let k = t.below(chars.len() as u32 + 1) as usize;
                        let mut s: String = chars[..k].iter().collect();
                        s.push_str(" \"unterminated ");
                        s.extend(chars[k..].iter());
                        s
                    }
                };
                // only texts that the independent reader rejects (or that are not one s-expression) count
                if edit < 5 && smtref::read_one(&bad).is_ok() {
                    rec.exclude("edit produced a well-formed text");
                    return Ok(());
                }
                let edit_name = [
                    "truncated",
                    "missing-close",
                    "extra-close",
                    "unterminated-bar",
                    "unterminated-string",
                    "ill-sorted/operand-of-other-sort",
                    "ill-sorted/extract-out-of-range",
                ][edit as usize];
                rec.label(&format!("{}:{}{}", if edit < 5 { "iii" } else { "iv" }, edit_name, if as_cmd { "/command" } else { "/term" }));
                let which = if as_cmd { "parse_command" } else { "parse_expr" };
                let outcome: Result<Result<Option<ExprRef>, String>, PanicInfo> = if as_cmd {
                    guard(|| match parse_command(ctx, &st, bad.as_bytes()) {
                        Ok(SmtCommand::Assert(e)) => Ok(Some(e)),
                        Ok(_) => Ok(None),
                        Err(e) => Err(err_class(&e)),
                    })
                } else {
                    guard(|| parse_expr(ctx, &st, bad.as_bytes()).map(Some).map_err(|e| err_class(&e)))
                };
                match outcome {
                    Err(p) if p.file.ends_with("expr/context.rs") || p.file.ends_with("expr/types.rs") => {
                        // one root cause: the reader hands operands to the expression builders
                        // without checking their sorts (the builders debug_assert / unwrap)
                        return Err(Failure::new(
                            "smt-read/ill-sorted-operands/panic-in-builder",
                            format!("`{}` (from `{}`): panic {}:{} {}", bad, good, p.file, p.line, p.msg),
                        ));
                    }
                    Err(p) => {
                        return Err(Failure::new(
                            format!("smt-read/malformed/{}/{}/{}", which, edit_name, p.class()),
                            format!("`{}` (from `{}`): panic {}:{} {}", bad, good, p.file, p.line, p.msg),
                        ));
                    }
                    Ok(Err(_)) => {}
                    Ok(Ok(None)) if edit >= 5 => {}
                    Ok(Ok(None)) => {
                        return Err(Failure::new(
                            format!("smt-read/malformed/{}/{}/wrong-value", which, edit_name),
                            format!("`{}` (from `{}`) read as a different command", bad, good),
                        ));
                    }
                    Ok(Ok(Some(r))) if edit >= 5 => {
                        // a lenient reading (e.g. `not` of a wider bit-vector) is not a wrong value,
                        // but whatever is returned must be a well-typed expression
                        if let Err(m) = refeval::deep_type_check(ctx, &[r]) {
                            return Err(Failure::new(
                                format!("smt-read/{}/accepted-ill-typed", edit_name),
                                format!("`{}` (from `{}`) was read as an ill-typed expression: {}", bad, good, m),
                            ));
                        }
                        rec.label("iv:accepted-well-typed-reading");
                    }
                    Ok(Ok(Some(r))) => {
                        let mut rng = SplitMix(hash_bytes(tape));
                        let used = refeval::symbols_of(ctx, &[root, r]);
                        let dict = crate::props::c01::dictionary(ctx, &[root, r]);
                        let (envs, _) = crate::props::c01::assignments_with(ctx, &used, &mut rng, 10, 8, &dict);
                        if let Err(m) = equivalent(ctx, root, r, &envs) {
                            return Err(Failure::new(
                                format!("smt-read/malformed/{}/{}/wrong-value", which, edit_name),
                                format!("`{}` (from `{}`) was accepted with a different meaning: {}", bad, good, m),
                            ));
                        }
                        rec.label("iii:accepted-with-original-meaning");
                    }
                }
                rec.nontrivial(hash_bytes(bad.as_bytes()));
                if rec.want_sample() && bad.len() < 200 {
                    rec.sample(format!("(iii) {}", bad));
                }
                Ok(())
            }
        }
    }
}
