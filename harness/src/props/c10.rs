//! C10 — PDR verdicts are sound and definite, with genuine counterexamples, whichever models and
//! unsat cores the solver returns, with generalisation enabled or disabled.

use crate::engine::*;
use crate::gen_sys::{SysCfg, gen_system, show_system};
use crate::mcrun::{Engine, McOutcome, error_class, run_mc, show_witness, validate_witness};
use crate::refsim::{RefSim, reachability};
use crate::shim::{self, ShimCfg};
use crate::tape::{Tape, hash_bytes};

pub struct C10;

pub fn sys_cfg(tier: Tier) -> SysCfg {
    SysCfg {
        max_state_bits: if tier == Tier::Quick { 6 } else { 7 },
        max_input_bits: 3,
        max_states: 3,
        max_inputs: 2,
        arrays: false, // PDR documents no array support
        expr_steps: 4,
        names_and_aliases: false,
        mc_bias: true,
        ..SysCfg::default()
    }
}

const CORE_MODES: [&str; 4] = ["z3", "full", "min", "rand"];

impl Prop for C10 {
    fn id(&self) -> &'static str {
        "C10"
    }
    fn rule(&self) -> String {
        "generated bit-vector transition systems (<= 6 state bits quick / 7 thorough, inputs, constraints, init over earlier states or inputs, constant and next-less states) x generalisation {unsat cores on, off} x solver profile (bitwuzla, z3, cvc5 with check-sat-assuming; yices-smt2 with cores disabled as the tool does) x unsat-core mode of the reference solver {z3's core, all assumptions, deletion-minimal, core plus random extras} x model seed; two configurations per system. Oracle: full explicit-state reachability fixpoint of the reference simulator: Success iff no bad state is reachable at any depth, Fail iff one is; Unknown, an error or a panic is a failure; witnesses are validated by replay. Systems whose shallowest bad state is deeper than 8 steps, or safe systems with a diameter above 12, are excluded and counted (PDR needs a frame per step and every query runs through the reference solver); a case exceeding 900 s (slowest observed on an idle machine: 12 s quick, 50 s thorough; a safe 7-bit system of diameter 32 and a depth-10 one needed more than 420 s on a machine with load 40, which led to the bounds) is reported as inconclusive (exit 2), not as a violation. Non-trivial: safe system with >= 3 reachable states and diameter >= 2, or unsafe at depth >= 2; distinct by hash of (system, configuration).".into()
    }
    fn assumptions(&self) -> Vec<String> {
        vec!["z3 4.8.12 behind the shim answers the tiny queries correctly; the shim's alternative cores are valid answers to get-unsat-assumptions (supersets of an unsat core / deletion-minimal subsets checked with z3)".into()]
    }
    fn budget(&self, tier: Tier) -> Budget {
        match tier {
            Tier::Quick => Budget { cases: 480, max_tape: 512 },
            Tier::Thorough => Budget { cases: 10_000, max_tape: 768 },
        }
    }
    fn isolated(&self) -> bool {
        true
    }
    fn case_time_limit(&self) -> u64 {
        900
    }
    fn setup(&self, _tier: Tier) -> Result<(), String> {
        shim::install().map(|_| ())
    }
    fn run_tape(&self, tape: &[u8], tier: Tier, rec: &mut Recorder) -> Result<(), Failure> {
        let mut t = Tape::new(tape);
        let cfg_bytes: Vec<u8> = (0..6).map(|_| t.byte()).collect();
        let seed = 1 + (t.u16() as u64);
        let case = gen_system(&mut t, &sys_cfg(tier));
        let text = show_system(&case.ctx, &case.sys);
        let sim = RefSim::new(&case.ctx, &case.sys);
        let reach = reachability(&sim).map_err(|m| Failure::new("harness/c10-reach", m))?;
        let min_bad = reach.min_any_bad();
        // the two shallow shapes make up over a third of what the generator yields: keep one in four
        let shallow = min_bad == Some(0) || (min_bad.is_none() && reach.diameter == 0 && reach.reachable < 3);
        if shallow && seed % 4 != 0 {
            rec.exclude(if min_bad == Some(0) { "bad in the initial state (3 of 4 sub-sampled away)" } else { "safe with < 3 reachable states and diameter 0 (3 of 4 sub-sampled away)" });
            return Ok(());
        }
        // PDR needs at least as many frames as the counterexample is deep and every query goes through
        // the reference solver: very deep systems (chained counters reach depth 32+) take minutes.
        // They are outside the time budget of a case, not outside the property; counted.
        let (max_depth, max_diam) = if tier == Tier::Quick { (8, 12) } else { (8, 12) };
        if min_bad.map(|d| d > max_depth).unwrap_or(false) || (min_bad.is_none() && reach.diameter > max_diam) {
            rec.exclude("counterexample depth / diameter beyond the per-case time budget");
            return Ok(());
        }
        if std::env::var("PV_DEBUG").is_ok() {
            use std::io::Write;
            if let Ok(mut f) = std::fs::OpenOptions::new().create(true).append(true).open("/tmp/pv_dbg.log") {
                let _ = writeln!(f, "DBG depth={:?} diam={} :: {}", min_bad, reach.diameter, text);
            }
        }
        for run in 0..2usize {
            let b = |i: usize| cfg_bytes[run * 3 + i];
            let mut profile_idx = (b(0) % 4) as usize;
            let mut disable_cores = b(1) & 1 == 1;
            let (pname, _) = shim::profile(profile_idx);
            if pname == "yices-smt2" {
                // the tool only uses yices without unsat-core generalisation
                disable_cores = true;
            }
            if profile_idx > 3 {
                profile_idx = 2;
            }
            let core = CORE_MODES[(b(2) % 4) as usize];
            rec.eval();
            rec.label(&format!("profile:{}", pname));
            if case.sys.states.iter().any(|s| case.ctx.get_symbol_name(s.symbol) == Some("gate")) {
                rec.label("shape:constraint-only-gate-state");
            }
            rec.label(if disable_cores { "generalisation:off" } else { "generalisation:on" });
            rec.label(&format!("cores:{}", core));
            let mut ctx = case.ctx.clone();
            let sys = case.sys.clone();
            let cfg = ShimCfg { seed: seed + 17 * run as u64, core: core.into(), fault: None, log: None };
            let out = run_mc(&mut ctx, &sys, profile_idx, Engine::Pdr { disable_cores }, &cfg);
            let conf = format!(
                "profile={} disable_unsat_cores={} core-mode={} seed={} (min bad depth {:?}, diameter {}, reachable {})",
                pname, disable_cores, core, cfg.seed, min_bad, reach.diameter, reach.reachable
            );
            let gen_tag = if disable_cores { "no-gen" } else { "gen" };
            let fail = |sig: String, msg: String| -> Failure { Failure::new(sig, format!("{}\n{}\nsystem: {}", msg, conf, text)) };
            let f = match out {
                McOutcome::StartFailed(m) => return Err(Failure::new("harness/solver-start", m)),
                McOutcome::Panic(p) => Some(fail(
                    format!("pdr/{}/{}", gen_tag, p.class()),
                    format!("panic {}:{} {}", p.file, p.line, p.msg),
                )),
                McOutcome::Err(m) => {
                    let cls = error_class(&m);
                    if cls == "BACKEND" {
                        return Err(Failure::new("harness/backend-disagrees", format!("{}\n{}", m, text)));
                    }
                    Some(fail(format!("pdr/{}/error/{}/{}", gen_tag, pname, cls), format!("pdr returned an error: {}", m)))
                }
                McOutcome::Unknown => Some(fail(format!("pdr/{}/unknown", gen_tag), "pdr returned Unknown".into())),
                McOutcome::Success => {
                    if min_bad.is_some() {
                        Some(fail(
                            format!("pdr/{}/unsound-success", gen_tag),
                            format!("pdr reports success but a bad state is reachable at depth {:?}", min_bad),
                        ))
                    } else {
                        None
                    }
                }
                McOutcome::Fail(w) => {
                    if min_bad.is_none() {
                        Some(fail(
                            format!("pdr/{}/spurious-failure", gen_tag),
                            format!("pdr reports a failure but no bad state is reachable; witness {}", show_witness(&w)),
                        ))
                    } else {
                        match validate_witness(&ctx, &sys, &w) {
                            Ok(()) => None,
                            Err((kind, msg)) => Some(fail(format!("witness/{}", kind), format!("{}\nwitness {}", msg, show_witness(&w)))),
                        }
                    }
                }
            };
            if let Some(f) = f {
                if rec.tolerate("C10", &f) {
                    continue;
                }
                return Err(f);
            }
            let nt = match min_bad {
                None => reach.reachable >= 3 && reach.diameter >= 2,
                Some(d) => d >= 2,
            };
            if nt {
                rec.nontrivial(hash_bytes(format!("{}|{}", text, conf).as_bytes()));
                if rec.want_sample() {
                    rec.sample(format!("{} :: {}", conf, text));
                }
            }
            rec.label(if min_bad.is_some() { "verdict:fail" } else { "verdict:success" });
            match min_bad {
                Some(d) => rec.label(&format!("unsafe-depth:{}", d.min(6))),
                None => rec.label(&format!("safe-diameter:{}/reachable:{}", reach.diameter.min(6), if reach.reachable >= 3 { ">=3" } else { "<3" })),
            }
        }
        Ok(())
    }
}
