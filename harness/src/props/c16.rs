//! C16 — btor2 witness text round-trips.

use crate::engine::*;
use crate::refval::{Arr, Bv};
use crate::tape::{Tape, hash_bytes};
use baa::{ArrayOps, BitVecOps, Value};
use patronus::btor2::{parse_witness, parse_witnesses, witness_to_string};
use patronus::mc::{InitValue, Witness};

pub struct C16;

const NAMES: [&str; 10] = ["clk", "state0", "mem", "top.u1.sig", "x$y", "a[3]", "q", "data_in", "_state_1", "Ünï"];

/// what a name in a witness cannot contain: the format's token separators (blank, tab), the comment
/// start, the frame markers, and line terminators (`str::lines` and the characters Rust's `lines` /
/// `trim` treat as ends of lines)
const NAME_FORBIDDEN: [char; 9] = [' ', '\t', ';', '@', '#', '\u{85}', '\u{2028}', '\u{b}', '\u{c}'];

#[derive(Clone, Debug)]
enum RefInit {
    Bv(Bv),
    /// array + recorded indices (may contain duplicates)
    Arr(Arr, Vec<Bv>),
}

#[derive(Clone, Debug)]
struct RefWitness {
    failed: Vec<u32>,
    init: Vec<(String, RefInit)>,
    input_names: Vec<String>,
    inputs: Vec<Vec<Bv>>,
}

fn pick_width(t: &mut Tape) -> u32 {
    match t.weighted(&[3, 4, 2, 2, 1]) {
        0 => 1,
        1 => t.range(2, 8),
        2 => t.range(31, 33),
        3 => t.range(63, 65),
        _ => t.range(66, 200),
    }
}

fn gen_witness(t: &mut Tape, tag: usize) -> RefWitness {
    let n_failed = 1 + t.below(3);
    let mut failed: Vec<u32> = vec![];
    for _ in 0..n_failed {
        let b = if t.chance(20) { t.range(100, 70000) } else { t.below(8) };
        if !failed.contains(&b) {
            failed.push(b);
        }
    }
    let n_states = t.below(7);
    let mut init = vec![];
    for k in 0..n_states {
        let name = if t.chance(64) {
            crate::gen_expr::random_name(t, &NAME_FORBIDDEN, &format!("{}_{}", k, tag))
        } else {
            format!("{}{}_{}", NAMES[t.below(NAMES.len() as u32) as usize], k, tag)
        };
        if t.chance(70) {
            // array state: index width 1..64, data width
            let iw = match t.below(4) {
                0 => 1,
                1 => t.range(2, 4),
                2 => t.range(5, 32),
                _ => t.range(33, 64),
            };
            let dw = pick_width(t);
            let mut arr = Arr::constant(iw, &Bv::new(dw, t.bits(dw)));
            let n_idx = 1 + t.below(6);
            let mut indices = vec![];
            for _ in 0..n_idx {
                let idx = if !indices.is_empty() && t.chance(40) {
                    let j = t.below(indices.len() as u32) as usize;
                    let b: &Bv = &indices[j];
                    b.clone() // duplicate recorded index
                } else {
                    Bv::new(iw, t.bits(iw))
                };
                let data = if t.chance(64) { Bv::zero(dw) } else { Bv::new(dw, t.bits(dw)) };
                arr = arr.store(&idx, &data);
                indices.push(idx);
            }
            init.push((name, RefInit::Arr(arr, indices)));
        } else {
            let w = pick_width(t);
            init.push((name, RefInit::Bv(Bv::new(w, t.bits(w)))));
        }
    }
    let n_inputs = t.below(6);
    let input_names: Vec<String> =
        (0..n_inputs)
            .map(|k| {
                if t.chance(64) {
                    crate::gen_expr::random_name(t, &NAME_FORBIDDEN, &format!("_in{}_{}", k, tag))
                } else {
                    format!("{}_in{}_{}", NAMES[t.below(NAMES.len() as u32) as usize], k, tag)
                }
            })
            .collect();
    let widths: Vec<u32> = (0..n_inputs).map(|_| pick_width(t)).collect();
    // a property that already fails in the initial state gives a witness with a state frame and no
    // input frame at all (zero steps); without states there is always at least one step
    let steps = if !init.is_empty() && t.chance(28) { 0 } else { 1 + t.below(6) };
    let (input_names, widths) = if steps == 0 { (vec![], vec![]) } else { (input_names, widths) };
    let inputs: Vec<Vec<Bv>> =
        (0..steps).map(|_| widths.iter().map(|w| Bv::new(*w, t.bits(*w))).collect()).collect();
    RefWitness { failed, init, input_names, inputs }
}

fn to_patronus(w: &RefWitness, dense: bool) -> Witness {
    let mut out = Witness::default();
    out.failed_safety = w.failed.clone();
    for (name, v) in w.init.iter() {
        out.init_names.push(Some(name.clone()));
        out.init.push(match v {
            RefInit::Bv(b) => InitValue::BitVec(b.to_baa()),
            RefInit::Arr(a, idx) => InitValue::Array(a.to_baa(dense), idx.iter().map(|i| i.to_baa()).collect()),
        });
    }
    out.input_names = w.input_names.iter().map(|n| Some(n.clone())).collect();
    for frame in w.inputs.iter() {
        out.inputs.push(frame.iter().map(|b| Some(Value::BitVec(b.to_baa()))).collect());
    }
    out
}

fn compare(got: &Witness, exp: &RefWitness) -> Result<(), (String, String)> {
    if got.failed_safety != exp.failed {
        return Err(("failed-properties".into(), format!("{:?} vs {:?}", got.failed_safety, exp.failed)));
    }
    if got.init.len() != exp.init.len() || got.init_names.len() != exp.init.len() {
        return Err((
            "state-count".into(),
            format!("{} init values / {} names vs {}", got.init.len(), got.init_names.len(), exp.init.len()),
        ));
    }
    for (k, (name, v)) in exp.init.iter().enumerate() {
        if got.init_names[k].as_deref() != Some(name.as_str()) {
            return Err(("state-name".into(), format!("state {}: {:?} vs {}", k, got.init_names[k], name)));
        }
        match (&got.init[k], v) {
            (InitValue::BitVec(g), RefInit::Bv(e)) => {
                if Bv::from_baa(g) != *e || g.width() != e.w {
                    return Err(("bv-value".into(), format!("state {}: {} vs {}", k, Bv::from_baa(g).short(), e.short())));
                }
            }
            (InitValue::Array(ga, gi), RefInit::Arr(ea, ei)) => {
                let mut want: Vec<Bv> = ei.clone();
                want.sort_by(|a, b| a.v.cmp(&b.v));
                want.dedup();
                let gotidx: Vec<Bv> = gi.iter().map(Bv::from_baa).collect();
                if gotidx != want {
                    return Err((
                        "array-indices".into(),
                        format!(
                            "state {}: indices {:?} vs {:?}",
                            k,
                            gotidx.iter().map(|b| b.short()).collect::<Vec<_>>(),
                            want.iter().map(|b| b.short()).collect::<Vec<_>>()
                        ),
                    ));
                }
                if ga.index_width() != ea.iw || ga.data_width() != ea.dw {
                    return Err(("array-type".into(), format!("state {}: [{}->{}] vs [{}->{}]", k, ga.index_width(), ga.data_width(), ea.iw, ea.dw)));
                }
                for i in want.iter() {
                    let g = guard(|| ga.select(&i.to_baa())).map_err(|p| (p.class(), p.msg.clone()))?;
                    let e = ea.select(i);
                    if Bv::from_baa(&g) != e {
                        return Err((
                            "array-content".into(),
                            format!("state {} at index {}: {} vs {}", k, i.short(), Bv::from_baa(&g).short(), e.short()),
                        ));
                    }
                }
            }
            (g, e) => {
                return Err(("value-kind".into(), format!("state {}: {:?} vs {:?}", k, g, e)));
            }
        }
    }
    let names: Vec<Option<String>> = exp.input_names.iter().map(|n| Some(n.clone())).collect();
    // names are only recorded when there is at least one input value line
    if !exp.input_names.is_empty() && got.input_names != names {
        return Err(("input-names".into(), format!("{:?} vs {:?}", got.input_names, exp.input_names)));
    }
    if got.inputs.len() != exp.inputs.len() {
        return Err(("step-count".into(), format!("{} vs {}", got.inputs.len(), exp.inputs.len())));
    }
    for (s, (gf, ef)) in got.inputs.iter().zip(exp.inputs.iter()).enumerate() {
        if gf.len() != ef.len() {
            return Err(("input-count".into(), format!("step {}: {} vs {}", s, gf.len(), ef.len())));
        }
        for (k, (g, e)) in gf.iter().zip(ef.iter()).enumerate() {
            match g {
                Some(Value::BitVec(g)) if Bv::from_baa(g) == *e && g.width() == e.w => {}
                other => {
                    return Err(("input-value".into(), format!("step {} input {}: {:?} vs {}", s, k, other, e.short())));
                }
            }
        }
    }
    Ok(())
}

impl Prop for C16 {
    fn id(&self) -> &'static str {
        "C16"
    }
    fn fuzz_target(&self) -> Option<&'static str> {
        Some("tape")
    }
    fn rule(&self) -> String {
        "complete witnesses: 1-3 failed property indices, 0-6 states (bit-vectors of 1-200 bits; arrays with index width 1-64, 1-6 recorded indices incl. duplicates and zero entries, sparse and dense storage), 0-5 inputs, 0-6 steps (zero only with a state frame and then without inputs) with a value for every input, names without whitespace/;/@/# (the format's delimiters); streams of 1-5 witnesses. witness_to_string -> parse_witness / parse_witnesses(n') for n' below, at and above the number written: same failed indices, names, bit-vector values, sorted de-duplicated index lists and array contents at every recorded index; order preserved; prefix semantics for n' < n. Shapes the printer cannot express (no failed property, array without recorded index, array-typed inputs (documented todo), index width > 64 (baa limitation)) are excluded by construction. Non-trivial: witness with an array state of >= 2 recorded indices or a stream of >= 2 witnesses; distinct by hash of the text.".into()
    }
    fn budget(&self, tier: Tier) -> Budget {
        match tier {
            Tier::Quick => Budget { cases: 1_000_000, max_tape: 768 },
            Tier::Thorough => Budget { cases: 15_000_000, max_tape: 1536 },
        }
    }
    fn run_tape(&self, tape: &[u8], _tier: Tier, rec: &mut Recorder) -> Result<(), Failure> {
        let mut t = Tape::new(tape);
        let n = 1 + if t.chance(90) { t.below(5) } else { 0 } as usize;
        let dense = t.flag();
        let wits: Vec<RefWitness> = (0..n).map(|k| gen_witness(&mut t, k)).collect();
        rec.eval();
        let mut text = String::new();
        for w in wits.iter() {
            let pw = to_patronus(w, dense);
            match guard(|| witness_to_string(&pw)) {
                Ok(s) => text.push_str(&s),
                Err(p) => {
                    return Err(Failure::new(
                        format!("witness/print/{}", p.class()),
                        format!("panic {}:{} {}\n{:?}", p.file, p.line, p.msg, w),
                    ));
                }
            }
        }
        let n_req = match t.below(4) {
            0 => 1.max(n.saturating_sub(1)),
            1 => n + 1 + t.below(3) as usize,
            _ => n,
        };
        let parsed = guard(|| {
            let mut input = std::io::Cursor::new(text.as_bytes().to_vec());
            if n_req == 1 && t.flag() {
                parse_witness(&mut input).map(|w| vec![w])
            } else {
                parse_witnesses(&mut input, n_req)
            }
        });
        let got = match parsed {
            Err(p) => {
                return Err(Failure::new(
                    format!("witness/parse/{}", p.class()),
                    format!("panic {}:{} {}\n{}", p.file, p.line, p.msg, text),
                ));
            }
            Ok(Err(e)) => return Err(Failure::new("witness/parse/io-error", format!("{}\n{}", e, text))),
            Ok(Ok(v)) => v,
        };
        let expect_n = n.min(n_req);
        if got.len() != expect_n {
            return Err(Failure::new(
                "witness/stream/count",
                format!("{} witnesses written, {} requested, {} read\n{}", n, n_req, got.len(), text),
            ));
        }
        for (k, (g, e)) in got.iter().zip(wits.iter()).enumerate() {
            if let Err((kind, msg)) = compare(g, e) {
                return Err(Failure::new(
                    format!("witness/roundtrip/{}", kind),
                    format!("witness {} of {}: {}\n{}", k, n, msg, text),
                ));
            }
        }
        rec.label(&format!("stream:{}{}", n, if n_req < n { "/prefix" } else if n_req > n { "/over" } else { "" }));
        let arr2 = wits.iter().any(|w| w.init.iter().any(|(_, v)| matches!(v, RefInit::Arr(_, i) if i.len() >= 2)));
        if arr2 {
            rec.label("array-state>=2-indices");
        }
        if arr2 || n >= 2 {
            rec.nontrivial(hash_bytes(text.as_bytes()));
            if rec.want_sample() && text.len() < 600 {
                rec.sample(text.replace('\n', " | "));
            }
        }
        Ok(())
    }
}
