//! C19 — arithmetic e-graph rewrites are value-preserving under their side conditions; converting a
//! supported expression to the e-graph language and back is equivalent.

use crate::engine::*;
use crate::refeval::{self, Env};
use crate::refval::{Bv, Val};
use crate::tape::{SplitMix, Tape, hash_bytes};
use egg::{ENodeOrVar, PatternAst, RecExpr, Var};
use patronus::expr::{Context, ExprRef, TypeCheck};
use patronus_egraphs::{Arith, ArithRewrite, Sign, create_rewrites, from_arith, to_arith};
use rustc_hash::FxHashMap;

pub struct C19;

struct RuleVars {
    widths: Vec<Var>,
    signs: Vec<Var>,
    symbols: Vec<Var>,
}

fn rule_vars(rule: &ArithRewrite) -> RuleVars {
    let (l, r) = rule.patterns();
    let mut widths = vec![];
    let mut signs = vec![];
    let mut symbols = vec![];
    for pat in [l, r] {
        for el in pat.as_ref().iter() {
            if let ENodeOrVar::Var(v) = el {
                let name = v.to_string();
                let list = match name.chars().nth(1) {
                    Some('w') => &mut widths,
                    Some('s') => &mut signs,
                    _ => &mut symbols,
                };
                if !list.contains(v) {
                    list.push(*v);
                }
            }
        }
    }
    widths.sort();
    signs.sort();
    symbols.sort();
    RuleVars { widths, signs, symbols }
}

fn instantiate(pat: &PatternAst<Arith>, subst: &FxHashMap<Var, Arith>) -> RecExpr<Arith> {
    let mut out = RecExpr::default();
    for el in pat.as_ref().iter() {
        let node = match el {
            ENodeOrVar::ENode(n) => n.clone(),
            ENodeOrVar::Var(v) => subst[v].clone(),
        };
        out.add(node);
    }
    out
}

fn substitution(vars: &RuleVars, assignment: &[(Var, u32)]) -> FxHashMap<Var, Arith> {
    let a: FxHashMap<Var, u32> = assignment.iter().cloned().collect();
    let mut out = FxHashMap::default();
    for w in vars.widths.iter() {
        out.insert(*w, Arith::from(a[w]));
    }
    for s in vars.signs.iter() {
        out.insert(*s, Arith::from(if a[s] == 1 { Sign::Signed } else { Sign::Unsigned }));
    }
    for s in vars.symbols.iter() {
        let name: String = s.to_string().chars().skip(1).collect();
        out.insert(*s, Arith::Symbol(name));
    }
    out
}

fn show_assignment(a: &[(Var, u32)]) -> String {
    a.iter().map(|(v, x)| format!("{}={}", v, x)).collect::<Vec<_>>().join(" ")
}

/// class of an assignment for signatures: which width parameters are equal to 1 / signs set
fn assignment_class(a: &[(Var, u32)]) -> String {
    let maxw = a.iter().filter(|(v, _)| v.to_string().starts_with("?w")).map(|(_, x)| *x).max().unwrap_or(0);
    let signs: Vec<String> = a
        .iter()
        .filter(|(v, _)| v.to_string().starts_with("?s"))
        .map(|(v, x)| format!("{}{}", &v.to_string()[1..], x))
        .collect();
    format!("maxw{}[{}]", if maxw <= 4 { "<=4" } else if maxw <= 8 { "5-8" } else { ">8" }, signs.join(","))
}

/// Checks one instantiation. Ok(true) = condition held and both sides agree.
fn check_instance(rule: &ArithRewrite, vars: &RuleVars, assignment: &[(Var, u32)], rng: &mut SplitMix, rec: &mut Recorder, exh_bits: u32) -> Result<bool, Failure> {
    let holds = match guard(|| rule.eval_condition(assignment)) {
        Ok(h) => h,
        Err(p) => {
            return Err(Failure::new(
                format!("egraph-rule/{}/condition-{}", rule.name(), p.class()),
                format!("eval_condition panicked for {}: {}", show_assignment(assignment), p.msg),
            ));
        }
    };
    if !holds {
        return Ok(false);
    }
    let subst = substitution(vars, assignment);
    let (lp, rp) = rule.patterns();
    let mut ctx = Context::default();
    let built = guard(|| {
        let l = from_arith(&mut ctx, &instantiate(lp, &subst));
        let r = from_arith(&mut ctx, &instantiate(rp, &subst));
        (l, r)
    });
    let (l, r) = match built {
        Ok(x) => x,
        Err(p) => {
            return Err(Failure::new(
                format!("egraph-rule/{}/lowering-{}", rule.name(), p.class()),
                format!("from_arith panicked for {}: {}:{} {}", show_assignment(assignment), p.file, p.line, p.msg),
            ));
        }
    };
    let wo = assignment.iter().find(|(v, _)| v.to_string() == "?wo").map(|(_, x)| *x);
    let tl = l.get_type(&ctx);
    let tr = r.get_type(&ctx);
    if tl != tr || wo.map(|w| tl.get_bit_vector_width() != Some(w)).unwrap_or(false) {
        return Err(Failure::new(
            format!("egraph-rule/{}/width-mismatch/{}", rule.name(), assignment_class(assignment)),
            format!("{}: lhs {:?} rhs {:?} wo {:?}", show_assignment(assignment), tl, tr, wo),
        ));
    }
    if let Err(m) = refeval::deep_type_check(&ctx, &[l, r]) {
        return Err(Failure::new(
            format!("egraph-rule/{}/ill-typed/{}", rule.name(), assignment_class(assignment)),
            format!("{}: {}", show_assignment(assignment), m),
        ));
    }
    let syms = refeval::symbols_of(&ctx, &[l, r]);
    // same name => same symbol (a symbol used at two widths would be two different symbols)
    {
        let mut names: Vec<&str> = syms.iter().map(|s| ctx.get_symbol_name(*s).unwrap()).collect();
        names.sort();
        let n = names.len();
        names.dedup();
        if names.len() != n {
            return Err(Failure::new(
                format!("egraph-rule/{}/symbol-at-two-widths", rule.name()),
                show_assignment(assignment),
            ));
        }
    }
    let (envs, exhaustive) = crate::props::c01::assignments(&ctx, &syms, rng, exh_bits, 4096);
    for env in envs.iter() {
        let vl = refeval::eval(&ctx, env, l).map_err(|m| Failure::new("harness/c19", m))?;
        let vr = refeval::eval(&ctx, env, r).map_err(|m| Failure::new("harness/c19", m))?;
        if !vl.sem_eq(&vr) {
            return Err(Failure::new(
                format!("egraph-rule/{}/unsound/{}", rule.name(), assignment_class(assignment)),
                format!(
                    "{}: lhs {} = {} but rhs {} = {} under {}",
                    show_assignment(assignment),
                    refeval::show(&ctx, l),
                    vl.short(),
                    refeval::show(&ctx, r),
                    vr.short(),
                    crate::props::c01::show_env(&ctx, env)
                ),
            ));
        }
    }
    rec.evals(1);
    if exhaustive {
        rec.label_n(&format!("rule:{}:cond-true-exhaustive-values", rule.name()), 1);
    } else {
        rec.label_n(&format!("rule:{}:cond-true-sampled-values", rule.name()), 1);
    }
    let ws: Vec<u32> = assignment.iter().filter(|(v, _)| v.to_string().starts_with("?w")).map(|(_, x)| *x).collect();
    if ws.iter().any(|w| *w != ws[0]) {
        rec.nontrivial(hash_bytes(format!("{}|{}", rule.name(), show_assignment(assignment)).as_bytes()));
        if rec.want_sample() {
            rec.sample(format!("{} @ {} : {} == {}", rule.name(), show_assignment(assignment), refeval::show(&ctx, l), refeval::show(&ctx, r)));
        }
    }
    Ok(true)
}

fn exhaustive_bound(tier: Tier) -> u32 {
    match tier {
        Tier::Quick => 5,
        Tier::Thorough => 7,
    }
}

/// items: one per (rule, value of the first width parameter, sign combination chunk)
fn item_space(tier: Tier) -> Vec<(usize, u32)> {
    let rules = create_rewrites();
    let w = exhaustive_bound(tier);
    let mut v = vec![];
    for (ri, _) in rules.iter().enumerate() {
        for first in 1..=w {
            v.push((ri, first));
        }
    }
    v
}

// ---------------------------------------------------------------------------------------------
// convertible fragment for the round trip
// ---------------------------------------------------------------------------------------------

fn gen_arith_expr(ctx: &mut Context, t: &mut Tape, depth: u32, counter: &mut u32, mixed: &mut bool) -> (ExprRef, u32) {
    if depth == 0 || t.chance(70) {
        let w = t.range(1, 8);
        let name = format!("v{}", *counter);
        *counter += 1;
        return (ctx.bv_symbol(&name, w), w);
    }
    let (a, wa) = gen_arith_expr(ctx, t, depth - 1, counter, mixed);
    let (b, wb) = gen_arith_expr(ctx, t, depth - 1, counter, mixed);
    let w = wa.max(wb) + t.below(4);
    let mut ext = |ctx: &mut Context, t: &mut Tape, e: ExprRef, we: u32, mixed: &mut bool| -> ExprRef {
        if we == w {
            return e;
        }
        let by = w - we;
        match t.weighted(&[8, 8, 2]) {
            0 => ctx.zero_extend(e, by),
            1 => ctx.sign_extend(e, by),
            _ if by >= 2 => {
                // a chain of 2-4 nested extensions of random kinds (same-kind and mixed)
                let links = t.range(2, by.min(4));
                let mut left = by;
                let mut cur = e;
                let mut kinds = vec![];
                for l in 0..links {
                    let remaining_links = links - l - 1;
                    let k = if remaining_links == 0 { left } else { t.range(1, left - remaining_links) };
                    left -= k;
                    let signed = t.flag();
                    kinds.push(signed);
                    cur = if signed { ctx.sign_extend(cur, k) } else { ctx.zero_extend(cur, k) };
                }
                if kinds.iter().any(|k| *k != kinds[0]) {
                    *mixed = true;
                }
                cur
            }
            _ => ctx.zero_extend(e, by),
        }
    };
    let a = ext(ctx, t, a, wa, mixed);
    let b = ext(ctx, t, b, wb, mixed);
    let e = match t.below(6) {
        0 => ctx.add(a, b),
        1 => ctx.sub(a, b),
        2 => ctx.mul(a, b),
        3 => ctx.shift_left(a, b),
        4 => ctx.shift_right(a, b),
        _ => ctx.arithmetic_shift_right(a, b),
    };
    (e, w)
}

impl Prop for C19 {
    fn id(&self) -> &'static str {
        "C19"
    }
    fn fuzz_target(&self) -> Option<&'static str> {
        Some("tape")
    }
    fn rule(&self) -> String {
        "(i) every rule of create_rewrites(): all assignments of its width parameters in 1..=5 (quick) / 1..=7 (thorough) x both values of every sign parameter (exhaustive), plus condition-directed samples with widths up to 48 (base parameters drawn small, then each condition parameter is scanned over its domain and a satisfying value is chosen, so every sample satisfies eval_condition); patterns are instantiated by the harness and lowered with from_arith; where the side condition holds both sides must have width wo, type-check, and agree under ALL operand values when they total <= 12 bits (16 in the thorough tier), else under 4096 corner-biased samples (reference evaluator). (ii) expressions of the convertible fragment (add/sub/mul/shl/lshr/ashr over symbols or nested operations under zero/sign extension, chains of 2-4 nested same-kind and mixed extensions with low weight): from_arith(to_arith(e)) has the same width and is reference-evaluator-equal. Non-trivial: (i) instantiation with condition true and not all width parameters equal, (ii) expression with >= 2 operators and >= 1 sign extension; distinct by hash.".into()
    }
    fn budget(&self, tier: Tier) -> Budget {
        match tier {
            Tier::Quick => Budget { cases: 24_000, max_tape: 256 },
            Tier::Thorough => Budget { cases: 1_000_000, max_tape: 384 },
        }
    }
    fn items(&self, tier: Tier) -> u64 {
        item_space(tier).len() as u64
    }
    fn exhaustive_note(&self) -> Option<String> {
        Some("all width assignments up to the tier's bound x all sign assignments for every rule".into())
    }
    fn case_time_limit(&self) -> u64 {
        900
    }
    fn run_item(&self, idx: u64, tier: Tier, rec: &mut Recorder) -> Result<(), Failure> {
        let (ri, first) = item_space(tier)[idx as usize];
        let rules = create_rewrites();
        let rule = &rules[ri];
        let vars = rule_vars(rule);
        let w = exhaustive_bound(tier);
        let nw = vars.widths.len();
        let ns = vars.signs.len();
        let mut rng = SplitMix(idx.wrapping_mul(0x9E3779B97F4A7C15) ^ 77);
        let mut first_fail: Option<Failure> = None;
        let mut total = 0u64;
        let mut held = 0u64;
        // enumerate remaining widths
        let rest = nw.saturating_sub(1);
        let combos = (w as u64).pow(rest as u32);
        for c in 0..combos {
            let mut widths = vec![first];
            let mut x = c;
            for _ in 0..rest {
                widths.push((x % w as u64) as u32 + 1);
                x /= w as u64;
            }
            for s in 0..(1u64 << ns) {
                let mut a: Vec<(Var, u32)> = vec![];
                for (k, v) in vars.widths.iter().enumerate() {
                    a.push((*v, widths[k]));
                }
                for (k, v) in vars.signs.iter().enumerate() {
                    a.push((*v, ((s >> k) & 1) as u32));
                }
                total += 1;
                match check_instance(rule, &vars, &a, &mut rng, rec, if tier == Tier::Quick { 12 } else { 16 }) {
                    Ok(true) => held += 1,
                    Ok(false) => {}
                    Err(f) => {
                        if !rec.tolerate("C19", &f) && first_fail.is_none() {
                            first_fail = Some(f);
                        }
                    }
                }
            }
        }
        rec.label_n(&format!("rule:{}:instantiations", rule.name()), total);
        rec.label_n(&format!("rule:{}:condition-true", rule.name()), held);
        match first_fail {
            Some(f) => Err(f),
            None => Ok(()),
        }
    }
    fn run_tape(&self, tape: &[u8], _tier: Tier, rec: &mut Recorder) -> Result<(), Failure> {
        let mut t = Tape::new(tape);
        let mut rng = SplitMix(hash_bytes(tape));
        if t.chance(110) {
            // ---- (i) condition-directed sample above the exhaustive bound
            let rules = create_rewrites();
            let rule = &rules[t.below(rules.len() as u32) as usize];
            let vars = rule_vars(rule);
            let mut a: Vec<(Var, u32)> = vec![];
            for v in vars.widths.iter() {
                a.push((*v, if t.chance(60) { t.range(1, 16) } else { t.range(1, 6) }));
            }
            for v in vars.signs.iter() {
                a.push((*v, t.below(2)));
            }
            // repair: scan each width parameter's domain for values that make the condition true
            let mut holds = rule.eval_condition(&a);
            let mut rounds = 0;
            while !holds && rounds < 3 {
                rounds += 1;
                for k in 0..vars.widths.len() {
                    let saved = a[k].1;
                    let mut sat: Vec<u32> = vec![];
                    for val in 1..=48u32 {
                        a[k].1 = val;
                        if rule.eval_condition(&a) {
                            sat.push(val);
                        }
                    }
                    if !sat.is_empty() {
                        a[k].1 = sat[t.below(sat.len().min(6) as u32) as usize];
                        holds = true;
                        break;
                    }
                    // move towards larger values for monotone conditions on later parameters
                    a[k].1 = if t.flag() { saved } else { (saved + t.range(1, 24)).min(48) };
                }
            }
            if !holds {
                rec.exclude("no satisfying assignment found by the directed search");
                return Ok(());
            }
            rec.label(&format!("directed:{}", rule.name()));
            check_instance(rule, &vars, &a, &mut rng, rec, 12)?;
            Ok(())
        } else {
            // ---- (ii) to_arith / from_arith round trip
            let mut ctx = Context::default();
            let mut counter = 0;
            let mut mixed = false;
            let depth = 1 + t.below(3);
            let (e, w) = gen_arith_expr(&mut ctx, &mut t, depth, &mut counter, &mut mixed);
            if ctx[e].is_symbol() {
                return Ok(());
            }
            rec.eval();
            rec.label("roundtrip");
            if mixed {
                rec.label("roundtrip:mixed-nested-extension");
            }
            let back = match guard(|| {
                let a = to_arith(&ctx, e);
                from_arith(&mut ctx, &a)
            }) {
                Ok(b) => b,
                Err(p) if p.msg.contains("not yet implemented: zero extension of a sign extended value") => {
                    // outside the convertible fragment, and said so loudly (one width and sign per operand
                    // cannot express zext(sext(x)))
                    rec.exclude("zero extension of a sign-extended operand (documented as not convertible)");
                    return Ok(());
                }
                Err(p) => {
                    return Err(Failure::new(
                        format!("egraph-convert/{}{}", p.class(), if mixed { "/mixed-ext" } else { "" }),
                        format!("{}: panic {}:{} {}", refeval::show(&ctx, e), p.file, p.line, p.msg),
                    ));
                }
            };
            if back.get_bv_type(&ctx) != Some(w) {
                return Err(Failure::new(
                    format!("egraph-convert/width-changed{}", if mixed { "/mixed-ext" } else { "" }),
                    format!("{} -> {}", refeval::show(&ctx, e), refeval::show(&ctx, back)),
                ));
            }
            if back != e {
                let syms = refeval::symbols_of(&ctx, &[e, back]);
                let (envs, _) = crate::props::c01::assignments(&ctx, &syms, &mut rng, 14, 256);
                for env in envs.iter() {
                    let va = refeval::eval(&ctx, env, e).map_err(|m| Failure::new("harness/c19", m))?;
                    let vb = match refeval::eval(&ctx, env, back) {
                        Ok(v) => v,
                        Err(m) => {
                            return Err(Failure::new("egraph-convert/foreign-symbol", format!("{}: {}", refeval::show(&ctx, back), m)));
                        }
                    };
                    if !va.sem_eq(&vb) {
                        return Err(Failure::new(
                            format!("egraph-convert/not-equivalent{}", if mixed { "/mixed-ext" } else { "" }),
                            format!(
                                "{} = {} but converted back {} = {} under {}",
                                refeval::show(&ctx, e),
                                va.short(),
                                refeval::show(&ctx, back),
                                vb.short(),
                                crate::props::c01::show_env(&ctx, env)
                            ),
                        ));
                    }
                }
                rec.label("roundtrip:different-ref-but-equivalent");
            }
            let n_ops = refeval::reachable(&ctx, &[e]).iter().filter(|n| !ctx[**n].is_symbol() && !matches!(ctx[**n], patronus::expr::Expr::BVZeroExt { .. } | patronus::expr::Expr::BVSignExt { .. })).count();
            let has_sext = refeval::reachable(&ctx, &[e]).iter().any(|n| matches!(ctx[*n], patronus::expr::Expr::BVSignExt { .. }));
            if n_ops >= 2 && has_sext {
                rec.nontrivial(hash_bytes(refeval::show(&ctx, e).as_bytes()));
                if rec.want_sample() {
                    rec.sample(format!("roundtrip {}", refeval::show(&ctx, e)));
                }
            }
            let _ = (Env::default(), Val::Bv(Bv::zero(1)));
            Ok(())
        }
    }
}
