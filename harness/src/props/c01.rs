//! C01 — simplification preserves type and meaning (single expression, persistent simplifier,
//! whole transition system).

use crate::engine::*;
use crate::gen_expr::{GenCfg, WidthProfile, gen_case};
use crate::refeval::{self, Env, children, deep_type_check, op_name, reachable};
use crate::refval::{Arr, Bv, Val};
use crate::tape::{SplitMix, Tape, hash_bytes};
use baa::BitVecOps;
use num_bigint::BigUint;
use patronus::expr::{
    Context, DenseExprMetaData, Expr, ExprRef, Simplifier, SparseExprMap, Type, TypeCheck,
    simplify_single_expression,
};
use patronus::system::{State, TransitionSystem};

pub struct C01;

pub fn wclass4(w: u32) -> &'static str {
    if w <= 32 {
        "w<=32"
    } else if w <= 64 {
        "w33-64"
    } else if w <= 128 {
        "w65-128"
    } else {
        "w>128"
    }
}

fn width_of(ctx: &Context, e: ExprRef) -> u32 {
    match e.get_type(ctx) {
        Type::BV(w) => w,
        Type::Array(a) => a.data_width.max(a.index_width),
    }
}

/// All assignments if the symbols total <= `exh_bits` bits, else corner-biased samples.
pub fn assignments(ctx: &Context, syms: &[ExprRef], rng: &mut SplitMix, exh_bits: u32, samples: usize) -> (Vec<Env>, bool) {
    assignments_with(ctx, syms, rng, exh_bits, samples, &[])
}

/// Like `assignments`; sampled assignments additionally draw from `dict` (see `dictionary`).
pub fn assignments_with(
    ctx: &Context,
    syms: &[ExprRef],
    rng: &mut SplitMix,
    exh_bits: u32,
    samples: usize,
    dict: &[BigUint],
) -> (Vec<Env>, bool) {
    let mut total_bits: u64 = 0;
    let mut only_bv = true;
    for s in syms {
        match s.get_type(ctx) {
            Type::BV(w) => total_bits += w as u64,
            Type::Array(a) => {
                only_bv = false;
                total_bits += ((1u64 << a.index_width.min(20)) * a.data_width as u64).min(1 << 20);
            }
        }
    }
    if only_bv && total_bits <= exh_bits as u64 {
        let mut out = vec![];
        for v in 0..(1u64 << total_bits) {
            let mut env = Env::default();
            let mut rest = v;
            for s in syms {
                let w = s.get_bv_type(ctx).unwrap();
                env.insert(*s, Val::Bv(Bv::from_u64(w, rest & ((1u64 << w) - 1))));
                rest >>= w;
            }
            out.push(env);
        }
        (out, true)
    } else if total_bits <= exh_bits as u64 {
        // small arrays: enumerate everything (arrays as full tables)
        let mut out = vec![];
        for v in 0..(1u64 << total_bits) {
            let mut env = Env::default();
            let mut rest = v;
            for s in syms {
                match s.get_type(ctx) {
                    Type::BV(w) => {
                        env.insert(*s, Val::Bv(Bv::from_u64(w, rest & ((1u64 << w) - 1))));
                        rest >>= w;
                    }
                    Type::Array(a) => {
                        let mut arr = Arr::constant(a.index_width, &Bv::zero(a.data_width));
                        for i in 0..(1u64 << a.index_width) {
                            let d = rest & ((1u64 << a.data_width) - 1);
                            rest >>= a.data_width;
                            arr = arr.store(&Bv::from_u64(a.index_width, i), &Bv::from_u64(a.data_width, d));
                        }
                        env.insert(*s, Val::Arr(arr));
                    }
                }
            }
            out.push(env);
        }
        (out, true)
    } else {
        let mut out = vec![];
        for _ in 0..samples {
            let mut env = crate::props::c06::random_env(ctx, syms, rng);
            // dictionary values: a third of the sampled assignments give some symbols a literal of the
            // case itself (or a neighbour of it), so that comparisons against constants, special divisors,
            // masks and indices that the expressions mention are hit on wide symbols too
            if !dict.is_empty() && rng.below(3) == 0 {
                for s in syms {
                    if rng.below(2) == 0 {
                        continue;
                    }
                    let lit = &dict[rng.below(dict.len() as u64) as usize];
                    let pick = |rng: &mut SplitMix, w: u32| -> Bv {
                        let m = BigUint::from(1u32) << w;
                        let v = match rng.below(6) {
                            0 => lit + 1u32,
                            1 => (lit + &m - 1u32) % &m,
                            2 => (&m - (lit % &m)) % &m,
                            _ => lit.clone(),
                        };
                        Bv::new(w, v % &m)
                    };
                    match s.get_type(ctx) {
                        Type::BV(w) => {
                            let v = pick(rng, w);
                            env.insert(*s, Val::Bv(v));
                        }
                        Type::Array(a) => {
                            if let Some(Val::Arr(arr)) = env.get(s).cloned() {
                                let idx = pick(rng, a.index_width);
                                let data = pick(rng, a.data_width);
                                env.insert(*s, Val::Arr(arr.store(&idx, &data)));
                            }
                        }
                    }
                }
            }
            out.push(env);
        }
        (out, false)
    }
}

fn miter_period(tier: Tier) -> u64 {
    match tier {
        Tier::Quick => 400,
        Tier::Thorough => 400,
    }
}

/// literal values occurring in the expressions below `roots` (the assignment dictionary)
pub fn dictionary(ctx: &Context, roots: &[ExprRef]) -> Vec<BigUint> {
    let mut out: Vec<BigUint> = vec![];
    for n in reachable(ctx, roots) {
        if let Expr::BVLiteral(v) = &ctx[n] {
            let b = Bv::from_baa(&v.get(ctx));
            if !out.contains(&b.v) {
                out.push(b.v);
            }
        }
        if out.len() >= 64 {
            break;
        }
    }
    out
}

pub fn show_env(ctx: &Context, env: &Env) -> String {
    let mut envs: Vec<String> =
        env.iter().map(|(k, v)| format!("{}={}", refeval::show(ctx, *k), v.short())).collect();
    envs.sort();
    envs.join(" ")
}

/// literal nodes must be canonical (no bits above the width)
fn non_canonical_literal(ctx: &Context, roots: &[ExprRef]) -> Option<String> {
    for n in reachable(ctx, roots) {
        if let Expr::BVLiteral(v) = &ctx[n] {
            let r = v.get(ctx);
            let raw = Bv::raw_from_words(r.words());
            if raw.bits() > r.width() as u64 {
                return Some(format!("literal of width {} holds raw value {:x}", r.width(), raw));
            }
        }
    }
    None
}

/// Judge `after` against `before` (same context). Returns (kind, message, failing env)
pub fn judge_equiv(
    ctx: &Context,
    before: ExprRef,
    after: ExprRef,
    envs: &[Env],
) -> Result<(), (String, String, Option<Env>)> {
    let tb = before.get_type(ctx);
    let ta = after.get_type(ctx);
    if tb != ta {
        return Err(("type-changed".into(), format!("type {:?} became {:?}", tb, ta), None));
    }
    if let Err(m) = deep_type_check(ctx, &[after]) {
        return Err(("ill-typed".into(), m, None));
    }
    if let Some(m) = non_canonical_literal(ctx, &[after]) {
        return Err(("non-canonical-literal".into(), m, None));
    }
    for env in envs {
        let vb = refeval::eval(ctx, env, before).map_err(|e| ("harness-refeval".to_string(), e, None))?;
        let va = match refeval::eval(ctx, env, after) {
            Ok(v) => v,
            Err(e) => {
                return Err(("new-symbol".into(), format!("result mentions an unknown symbol: {}", e), Some(env.clone())));
            }
        };
        if !vb.sem_eq(&va) {
            return Err((
                "wrong-value".into(),
                format!("original = {} but simplified = {}", vb.short(), va.short()),
                Some(env.clone()),
            ));
        }
    }
    Ok(())
}

/// Smallest sub-expression whose own simplification is wrong -> signature tail.
fn localise(ctx: &mut Context, root: ExprRef, envs: &[Env], kind_hint: &str) -> (String, String) {
    for n in reachable(ctx, &[root]) {
        if ctx[n].is_symbol() || ctx[n].is_bv_lit() {
            continue;
        }
        let r = guard(|| simplify_single_expression(ctx, n));
        let ch = children(&ctx[n]);
        // shapes of the (simplified) children: that is what the rule for `n` gets to see
        let mut child_ops = vec![];
        let mut wmax = width_of(ctx, n);
        for c in ch.iter() {
            let sc = guard(|| simplify_single_expression(ctx, *c)).unwrap_or(*c);
            child_ops.push(op_name(&ctx[sc]));
            wmax = wmax.max(width_of(ctx, *c));
        }
        let opn = op_name(&ctx[n]);
        let tail = format!("{}/[{}]", wclass4(wmax), child_ops.join(","));
        match r {
            Err(p) => {
                return (
                    format!("{}/{}/{}", opn, p.class(), tail),
                    format!("simplifying {} panicked: {}:{} {}", refeval::show(ctx, n), p.file, p.line, p.msg),
                );
            }
            Ok(s) => {
                if let Err((kind, msg, env)) = judge_equiv(ctx, n, s, envs) {
                    return (
                        format!("{}/{}/{}", opn, kind, tail),
                        format!(
                            "{} -> {} : {}{}",
                            refeval::show(ctx, n),
                            refeval::show(ctx, s),
                            msg,
                            env.map(|e| format!(" under {}", show_env(ctx, &e))).unwrap_or_default()
                        ),
                    );
                }
            }
        }
    }
    (format!("whole-expression/{}", kind_hint), "no single sub-expression fails on its own".into())
}

pub fn gen_cfg(tier: Tier) -> GenCfg {
    GenCfg {
        widths: WidthProfile::Wide,
        arrays: true,
        divrem: true,
        max_steps: if tier == Tier::Quick { 20 } else { 48 },
        exotic_names: false,
        max_index_width: 4,
    }
}

impl Prop for C01 {
    fn id(&self) -> &'static str {
        "C01"
    }
    fn fuzz_target(&self) -> Option<&'static str> {
        Some("tape")
    }
    fn rule(&self) -> String {
        "tape-decoded well-typed expression DAGs (all 35 node kinds incl. arrays and div/rem, widths {1,2-8,31-33,63-65,127-129,130-200}, literal shapes 0/1/ones/one-hot/masks/shift amounts >= width and >= 2^32, rule-shaped operand choices) simplified in three modes (simplify_single_expression; persistent Simplifier with sparse or dense cache fed several roots; system::transform::simplify_expressions on a system built from the roots). Oracle: same type, deep type check of every result node, no non-canonical literal, reference-evaluator equality of original and result under all assignments (<= 12 symbol bits) or 24 corner-biased samples. Non-trivial: result != input and input has >= 1 symbol; distinct by hash of the input expression.".into()
    }
    fn assumptions(&self) -> Vec<String> {
        vec!["reference evaluator implements SMT-LIB semantics (both sides are judged by it, never by patronus' evaluator)".into()]
    }
    fn budget(&self, tier: Tier) -> Budget {
        match tier {
            Tier::Quick => Budget { cases: 480_000, max_tape: 384 },
            Tier::Thorough => Budget { cases: 8_000_000, max_tape: 768 },
        }
    }
    fn run_tape(&self, tape: &[u8], tier: Tier, rec: &mut Recorder) -> Result<(), Failure> {
        let mut t = Tape::new(tape);
        let mode = t.below(4);
        let cfg = gen_cfg(tier);
        let mut case = gen_case(&mut t, &cfg, if mode == 0 { 1 } else { 4 });
        let roots = case.roots.clone();
        let ctx = &mut case.ctx;
        let mut rng = SplitMix(hash_bytes(tape));
        let syms = refeval::symbols_of(ctx, &roots);
        let dict = dictionary(ctx, &roots);
        let (envs, exhaustive) = assignments_with(ctx, &syms, &mut rng, 12, 24, &dict);
        rec.eval();
        rec.label(match mode {
            0 => "mode:single",
            1 => "mode:persistent-sparse",
            2 => "mode:persistent-dense",
            _ => "mode:system",
        });
        if exhaustive {
            rec.label("assignments:exhaustive");
        }

        // ---- apply the simplifier in the chosen mode
        let results: Result<Vec<(ExprRef, ExprRef)>, PanicInfo> = match mode {
            0 => guard(|| vec![(roots[0], simplify_single_expression(ctx, roots[0]))]),
            1 => guard(|| {
                let mut s = Simplifier::new(SparseExprMap::default());
                roots.iter().map(|r| (*r, s.simplify(ctx, *r))).collect()
            }),
            2 => guard(|| {
                let mut s = Simplifier::new(DenseExprMetaData::default());
                roots.iter().map(|r| (*r, s.simplify(ctx, *r))).collect()
            }),
            _ => {
                // system: 1-bit roots become bad states / constraints, roots with the type of a
                // symbol become init/next of a state made from that symbol, the rest are outputs
                let mut sys = TransitionSystem::new("c01".to_string());
                let mut used_syms: Vec<ExprRef> = vec![];
                let mut slots: Vec<(ExprRef, String, usize)> = vec![]; // (original, kind, index)
                for (i, r) in roots.iter().enumerate() {
                    let tpe = r.get_type(ctx);
                    let state_sym = syms
                        .iter()
                        .copied()
                        .find(|s| s.get_type(ctx) == tpe && !used_syms.contains(s) && *s != *r);
                    if tpe == Type::BV(1) && i % 2 == 0 {
                        slots.push((*r, "bad".into(), sys.bad_states.len()));
                        sys.bad_states.push(*r);
                    } else if tpe == Type::BV(1) && i % 4 == 1 {
                        slots.push((*r, "constraint".into(), sys.constraints.len()));
                        sys.constraints.push(*r);
                    } else if let Some(s) = state_sym {
                        used_syms.push(s);
                        let with_init = i % 3 != 2;
                        let idx = sys.states.len();
                        sys.add_state(
                            ctx,
                            State { symbol: s, init: if with_init { Some(*r) } else { None }, next: Some(*r) },
                        );
                        slots.push((*r, if with_init { "init+next".into() } else { "next".into() }, idx));
                    } else if tpe.is_bit_vector() {
                        slots.push((*r, "output".into(), sys.outputs.len()));
                        sys.add_output(ctx, format!("out{}", i).into(), *r);
                    } else {
                        // array root without matching symbol: simplify on its own
                        slots.push((*r, "skip".into(), 0));
                    }
                }
                for s in syms.iter() {
                    if !used_syms.contains(s) {
                        sys.add_input(ctx, *s);
                    }
                }
                let r = guard(|| {
                    patronus::system::transform::simplify_expressions(ctx, &mut sys);
                });
                match r {
                    Err(p) => Err(p),
                    Ok(()) => {
                        let mut out = vec![];
                        for (orig, kind, idx) in slots.iter() {
                            match kind.as_str() {
                                "bad" => out.push((*orig, sys.bad_states[*idx])),
                                "constraint" => out.push((*orig, sys.constraints[*idx])),
                                "output" => out.push((*orig, sys.outputs[*idx].expr)),
                                "init+next" => {
                                    let st = sys.states[*idx];
                                    match (st.init, st.next) {
                                        (Some(i), Some(n)) => {
                                            out.push((*orig, i));
                                            out.push((*orig, n));
                                        }
                                        _ => {
                                            return Err(Failure::new(
                                                "simplify/system/lost-init-or-next",
                                                format!("state {} lost its init or next expression", idx),
                                            ));
                                        }
                                    }
                                }
                                "next" => {
                                    let st = sys.states[*idx];
                                    if st.init.is_some() {
                                        return Err(Failure::new(
                                            "simplify/system/invented-init",
                                            format!("state {} gained an init expression", idx),
                                        ));
                                    }
                                    match st.next {
                                        Some(n) => out.push((*orig, n)),
                                        None => {
                                            return Err(Failure::new(
                                                "simplify/system/lost-init-or-next",
                                                format!("state {} lost its next expression", idx),
                                            ));
                                        }
                                    }
                                }
                                _ => {}
                            }
                        }
                        // state symbols and inputs must be unchanged
                        for (k, s) in used_syms.iter().enumerate() {
                            if sys.states[k].symbol != *s {
                                return Err(Failure::new(
                                    "simplify/system/state-symbol-changed",
                                    format!("state symbol {} changed", refeval::show(ctx, *s)),
                                ));
                            }
                        }
                        Ok(out)
                    }
                }
            }
        };

        let results = match results {
            Ok(r) => r,
            Err(p) => {
                let (tail, detail) = localise(ctx, roots[0], &envs[..envs.len().min(4)], "panic");
                // find the root that panics on its own for a better localisation
                let mut best = (tail, detail);
                if best.0.starts_with("whole-expression") {
                    for r in roots.iter() {
                        let cand = localise(ctx, *r, &envs[..envs.len().min(4)], "panic");
                        if !cand.0.starts_with("whole-expression") {
                            best = cand;
                            break;
                        }
                    }
                }
                if best.0.starts_with("whole-expression") {
                    best.0 = format!("whole-expression/{}", p.class());
                }
                return Err(Failure::new(
                    format!("simplify/{}", best.0),
                    format!("{}\npanic: {}:{} {}\nroots: {}", best.1, p.file, p.line, p.msg,
                        roots.iter().map(|r| refeval::show(ctx, *r)).collect::<Vec<_>>().join(" ;; ")),
                ));
            }
        };

        let mut changed = false;
        for (before, after) in results.iter() {
            if before != after {
                changed = true;
                rec.label(&format!("changed-root:{}", op_name(&ctx[*before])));
            }
            if let Err((kind, msg, env)) = judge_equiv(ctx, *before, *after, &envs) {
                let le: Vec<Env> = match &env {
                    Some(e) => vec![e.clone()],
                    None => envs[..envs.len().min(4)].to_vec(),
                };
                let (tail, detail) = localise(ctx, *before, &le, &kind);
                return Err(Failure::new(
                    format!("simplify/{}", tail),
                    format!(
                        "{}\nmode {} root: {}\nresult: {}\n{}{}",
                        detail,
                        mode,
                        refeval::show(ctx, *before),
                        refeval::show(ctx, *after),
                        msg,
                        env.map(|e| format!("\nunder {}", show_env(ctx, &e))).unwrap_or_default()
                    ),
                ));
            }
        }
        // ---- solver-proposed assignment: where the assignments were only sampled, z3 is asked (for a slice
        //      of the cases) for an assignment under which original and result differ; the reference
        //      evaluator then judges that assignment like any other
        if changed && !exhaustive && !rec.frozen && hash_bytes(tape) % miter_period(tier) == 1 {
            if let Some((before, after)) = results.iter().find(|(b, a)| b != a).copied() {
                let msyms = refeval::symbols_of(ctx, &[before, after]);
                match crate::second::distinguish(ctx, before, after, &msyms) {
                    crate::second::Miter::Equal => rec.label("miter:z3-finds-no-difference"),
                    crate::second::Miter::NoAnswer => rec.label("miter:no-answer"),
                    crate::second::Miter::Differ(env) => {
                        // complete the assignment for symbols that only other roots use
                        let mut full = envs[0].clone();
                        for (k, v) in env.iter() {
                            full.insert(*k, v.clone());
                        }
                        match judge_equiv(ctx, before, after, std::slice::from_ref(&full)) {
                            Ok(()) => rec.label("miter:proposal-not-confirmed-by-the-reference"),
                            Err((kind, msg, env)) => {
                                let le: Vec<Env> = vec![env.clone().unwrap_or(full.clone())];
                                let (tail, detail) = localise(ctx, before, &le, &kind);
                                return Err(Failure::new(
                                    format!("simplify/{}", tail),
                                    format!(
                                        "{}\nmode {} root: {}\nresult: {}\n{}\nunder {} (assignment proposed by z3, judged by the reference evaluator)",
                                        detail,
                                        mode,
                                        refeval::show(ctx, before),
                                        refeval::show(ctx, after),
                                        msg,
                                        show_env(ctx, &full)
                                    ),
                                ));
                            }
                        }
                    }
                }
            }
        }
        if changed && !syms.is_empty() {
            let h = roots.iter().fold(0u64, |h, r| {
                h.wrapping_mul(31) ^ hash_bytes(refeval::show(ctx, *r).as_bytes())
            });
            rec.nontrivial(h);
            if rec.want_sample() {
                rec.sample(format!(
                    "mode {}: {}  ==>  {}",
                    mode,
                    refeval::show(ctx, results[0].0),
                    refeval::show(ctx, results[0].1)
                ));
            }
        }
        let _ = BigUint::from(0u32);
        Ok(())
    }
}
