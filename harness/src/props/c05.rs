//! C05 — SMT-LIB output of an expression/command is well-sorted and means the same thing.

use crate::engine::*;
use crate::gen_expr::{GenCfg, WidthProfile, gen_case};
use crate::props::c01::show_env;
use crate::refeval::{self, Env, children, op_name, reachable};
use crate::refval::Val;
use crate::smtref::{self, CmdKind, Profile, SExpr, SVal, Scopes, Sort, ValEnv};
use crate::tape::{SplitMix, Tape, hash_bytes};
use patronus::expr::{Context, Expr, ExprRef, Type, TypeCheck};
use patronus::smt::{SmtCommand, serialize_cmd};

pub struct C05;

pub fn sort_of_type(t: Type) -> Sort {
    match t {
        Type::BV(w) => Sort::of_bv_width(w),
        Type::Array(a) => Sort::Array(
            Box::new(Sort::of_bv_width(a.index_width)),
            Box::new(Sort::of_bv_width(a.data_width)),
        ),
    }
}

pub fn cmd_text(ctx: &Context, cmd: &SmtCommand) -> Result<String, PanicInfo> {
    guard(|| {
        let mut out = Vec::new();
        serialize_cmd(&mut out, Some(ctx), cmd).expect("write to Vec");
        String::from_utf8_lossy(&out).to_string()
    })
}

/// names that SMT-LIB cannot express or that collide with the language
pub fn name_ok(name: &str) -> bool {
    !(name.is_empty()
        || name.contains('|')
        || name.contains('\\')
        || smtref::RESERVED.contains(&name)
        || smtref::THEORY_SYMBOLS.contains(&name)
        || name == "true"
        || name == "false"
        || name.starts_with('@')
        || name.starts_with('.'))
}

pub fn val_env(ctx: &Context, env: &Env) -> ValEnv {
    let mut out = ValEnv::new();
    for (k, v) in env.iter() {
        if let Some(name) = ctx.get_symbol_name(*k) {
            out.insert(name.to_string(), SVal::from_val(v));
        }
    }
    out
}

/// Declares all symbols through the writer and checks the declarations. Returns scopes.
pub fn declare_all(ctx: &Context, syms: &[ExprRef]) -> Result<Scopes, Failure> {
    let mut sc = Scopes::new();
    let p = Profile::default();
    for s in syms {
        let text = cmd_text(ctx, &SmtCommand::DeclareConst(*s)).map_err(|p| {
            Failure::new(format!("smt-write/declare-const/{}", p.class()), p.msg.clone())
        })?;
        let name = ctx.get_symbol_name(*s).unwrap().to_string();
        let cmd = smtref::read_one(&text).map_err(|e| {
            Failure::new("smt-write/declare-const/lexical", format!("`{}`: {}", text.trim(), e))
        })?;
        match smtref::check_command(&cmd, &mut sc, &p) {
            Ok(CmdKind::DeclareConst(n)) => {
                if n != name {
                    return Err(Failure::new(
                        "smt-write/declare-const/identifier-changed",
                        format!("symbol `{}` was written as `{}` which reads back as `{}`", name, text.trim(), n),
                    ));
                }
                let want = sort_of_type(s.get_type(ctx));
                if sc.get(&n).unwrap().sort != want {
                    return Err(Failure::new(
                        "smt-write/declare-const/wrong-sort",
                        format!("`{}` declares {:?}, expected {}", text.trim(), sc.get(&n).unwrap().sort, want.to_smt()),
                    ));
                }
            }
            Ok(other) => {
                return Err(Failure::new("smt-write/declare-const/wrong-command", format!("{:?}", other)));
            }
            Err(e) => {
                return Err(Failure::new(
                    "smt-write/declare-const/rejected",
                    format!("`{}` rejected: {}", text.trim(), e),
                ));
            }
        }
    }
    Ok(sc)
}

/// Serialises `GetValue(e)`, checks the sort and compares values. Returns kind+message on failure.
pub fn check_term(ctx: &Context, sc: &Scopes, e: ExprRef, envs: &[Env]) -> Result<(), (String, String)> {
    let text = cmd_text(ctx, &SmtCommand::GetValue(e)).map_err(|p| (p.class(), p.msg.clone()))?;
    let cmd = smtref::read_one(&text).map_err(|m| ("lexical".to_string(), format!("`{}`: {}", text.trim(), m)))?;
    let l = cmd.list().ok_or(("malformed".to_string(), text.clone()))?;
    if l.len() != 2 || l[0].sym() != Some("get-value") || l[1].list().map(|x| x.len()) != Some(1) {
        return Err(("malformed".into(), format!("not a get-value with one term: `{}`", text.trim())));
    }
    let term = &l[1].list().unwrap()[0];
    check_sexpr_term(ctx, sc, e, term, envs, text.trim())
}

pub fn check_sexpr_term(
    ctx: &Context,
    sc: &Scopes,
    e: ExprRef,
    term: &SExpr,
    envs: &[Env],
    text: &str,
) -> Result<(), (String, String)> {
    let mut locals = vec![];
    let sort = smtref::sort_of(term, sc, &mut locals)
        .map_err(|m| ("ill-sorted".to_string(), format!("`{}`: {}", text, m)))?;
    let want = sort_of_type(e.get_type(ctx));
    if sort != want {
        return Err((
            "wrong-sort".into(),
            format!("`{}` has sort {} but the expression has type {}", text, sort.to_smt(), want.to_smt()),
        ));
    }
    for env in envs {
        let exp = refeval::eval(ctx, env, e).map_err(|m| ("harness-refeval".to_string(), m))?;
        let venv = val_env(ctx, env);
        let got = smtref::eval(term, sc, &venv, &mut vec![])
            .map_err(|m| ("not-evaluable".to_string(), format!("`{}`: {}", text, m)))?;
        let same = match (&exp, &got) {
            (Val::Bv(a), SVal::B(_, b)) => a == b,
            (Val::Arr(a), SVal::A(_, b)) => a.ext_eq(b),
            _ => false,
        };
        if !same {
            return Err((
                "wrong-value".into(),
                format!(
                    "`{}` evaluates to {} but the expression is {} under {}",
                    text,
                    got.to_val().short(),
                    exp.short(),
                    show_env(ctx, env)
                ),
            ));
        }
    }
    Ok(())
}

fn is_arith_consumer(e: &Expr) -> bool {
    matches!(
        e,
        Expr::BVSignExt { .. }
            | Expr::BVNegate(..)
            | Expr::BVGreater(..)
            | Expr::BVGreaterSigned(..)
            | Expr::BVGreaterEqual(..)
            | Expr::BVGreaterEqualSigned(..)
            | Expr::BVConcat(..)
            | Expr::BVShiftLeft(..)
            | Expr::BVArithmeticShiftRight(..)
            | Expr::BVShiftRight(..)
            | Expr::BVAdd(..)
            | Expr::BVMul(..)
            | Expr::BVSignedDiv(..)
            | Expr::BVUnsignedDiv(..)
            | Expr::BVSignedMod(..)
            | Expr::BVSignedRem(..)
            | Expr::BVUnsignedRem(..)
            | Expr::BVSub(..)
            | Expr::BVZeroExt { .. }
    )
}

/// (operator, position) pairs where a 1-bit value meets a bit-vector-only operator
pub fn coercion_sites(ctx: &Context, root: ExprRef) -> Vec<String> {
    let mut out = vec![];
    for n in reachable(ctx, &[root]) {
        let ex = &ctx[n];
        if is_arith_consumer(ex) {
            for (i, c) in children(ex).iter().enumerate() {
                if c.get_bv_type(ctx) == Some(1) {
                    out.push(format!("{}#{}", op_name(ex), i));
                }
            }
            if n.get_bv_type(ctx) == Some(1) {
                out.push(format!("{}#result", op_name(ex)));
            }
        }
        if matches!(ex, Expr::BVSlice { .. }) && n.get_bv_type(ctx) == Some(1) {
            out.push("BVSlice#result".into());
        }
    }
    out
}

pub fn gen_cfg(tier: Tier) -> GenCfg {
    GenCfg {
        widths: WidthProfile::Wide,
        arrays: true,
        divrem: true,
        max_steps: if tier == Tier::Quick { 14 } else { 32 },
        exotic_names: true,
        max_index_width: 3,
    }
}

fn second_opinion_period(tier: Tier) -> u64 {
    match tier {
        Tier::Quick => 250,
        Tier::Thorough => 400,
    }
}

/// z3 and cvc5 are given the declarations written by patronus, the assignment as equalities and the
/// `get-value` command written by patronus: both must accept everything and return the reference value.
pub fn second_opinion(ctx: &Context, e: ExprRef, used: &[ExprRef], env: &Env, rec: &mut Recorder) -> Result<(), Failure> {
    if !crate::second::available() {
        rec.exclude("second opinion: z3/cvc5 not installed");
        return Ok(());
    }
    if used.iter().any(|s| !ctx.get_symbol_name(*s).unwrap().is_ascii()) {
        rec.exclude("second opinion: non-ASCII symbol name");
        return Ok(());
    }
    // z3 reads simple symbols such as `-0` or `+1` as numerals although SMT-LIB 2.6 makes them symbols
    // (a simple symbol only must not start with a digit); control characters inside |..| differ too
    if used.iter().any(|s| {
        let n = ctx.get_symbol_name(*s).unwrap();
        let first = n.chars().next().unwrap_or('a');
        (!smtref::needs_quoting(n) && !(first.is_ascii_alphabetic() || first == '_')) || n.chars().any(|c| c.is_control())
    }) {
        rec.exclude("second opinion: symbol spelled like a number, or with control characters");
        return Ok(());
    }
    let mut script = String::from(crate::second::prelude());
    for s in used {
        script.push_str(&cmd_text(ctx, &SmtCommand::DeclareConst(*s)).map_err(|p| Failure::new("harness/second-opinion/write", p.msg))?);
        script.push('\n');
        let v = SVal::from_val(env.get(s).ok_or(Failure::new("harness/second-opinion/env", "no value"))?);
        script.push_str(&format!(
            "(assert (= {} {}))\n",
            smtref::print_symbol(ctx.get_symbol_name(*s).unwrap()),
            smtref::print_value(&v, 0)
        ));
    }
    script.push_str("(check-sat)\n");
    script.push_str(&cmd_text(ctx, &SmtCommand::GetValue(e)).map_err(|p| Failure::new("harness/second-opinion/write", p.msg))?);
    script.push('\n');
    let exp = refeval::eval(ctx, env, e).map_err(|m| Failure::new("harness/second-opinion/refeval", m))?;
    let ops = crate::second::ask(&script).map_err(|m| Failure::new("harness/second-opinion/spawn", m))?;
    for o in ops {
        if o.timed_out {
            rec.exclude("second opinion: solver hit its time limit");
            continue;
        }
        // cvc5 implements the (non-standard) `as const` only for constant elements
        if o.solver == "cvc5"
            && reachable(ctx, &[e]).iter().any(|n| matches!(&ctx[*n], Expr::ArrayConstant { e: d, .. } if !matches!(&ctx[*d], Expr::BVLiteral(_))))
        {
            rec.exclude("second opinion: cvc5 wants a literal under `as const`");
            continue;
        }
        rec.label(&format!("second-opinion:{}", o.solver));
        if !o.accepted {
            return Err(Failure::new(
                format!("harness/second-opinion/{}/rejects-what-smtref-accepts", o.solver),
                format!("{} answered `{}` to\n{}", o.solver, o.output.trim(), script),
            ));
        }
        let bad = |why: &str| {
            Failure::new(
                format!("harness/second-opinion/{}/{}", o.solver, why),
                format!("{} answered `{}` to\n{}\nreference value: {}", o.solver, o.output.trim(), script, exp.short()),
            )
        };
        if o.replies.first().and_then(|r| r.sym()) != Some("sat") {
            return Err(bad("not-sat"));
        }
        // arrays anywhere in the term: acceptance only (z3's model evaluator does not compare arrays over a
        // finite index sort extensionally)
        if matches!(exp, Val::Arr(_)) || reachable(ctx, &[e]).iter().any(|n| n.get_type(ctx).is_array()) {
            rec.label("second-opinion:array-term-accepted");
            continue;
        }
        let pair = o.replies.get(1).and_then(|r| r.list()).and_then(|l| l.first()).and_then(|p| p.list());
        let Some(pair) = pair.filter(|p| p.len() == 2) else { return Err(bad("reply-shape")) };
        let got = smtref::eval(&pair[1], &Scopes::new(), &ValEnv::new(), &mut vec![]).map_err(|_| bad("reply-value"))?;
        let same = match (&exp, &got) {
            (Val::Bv(a), SVal::B(_, b)) => a == b,
            _ => false,
        };
        if !same {
            return Err(bad("value-differs-from-reference"));
        }
    }
    Ok(())
}

fn localise(ctx: &Context, sc: &Scopes, root: ExprRef, envs: &[Env]) -> Option<(String, String)> {
    for n in reachable(ctx, &[root]) {
        if let Err((kind, msg)) = check_term(ctx, sc, n, envs) {
            let ex = &ctx[n];
            let pat: Vec<&str> = children(ex)
                .iter()
                .map(|c| match c.get_type(ctx) {
                    Type::BV(1) => "b",
                    Type::BV(_) => "v",
                    Type::Array(_) => "a",
                })
                .collect();
            let res = match n.get_type(ctx) {
                Type::BV(1) => "b",
                Type::BV(_) => "v",
                Type::Array(_) => "a",
            };
            return Some((format!("{}/{}({})->{}", kind, op_name(ex), pat.join(""), res), msg));
        }
    }
    None
}

impl Prop for C05 {
    fn id(&self) -> &'static str {
        "C05"
    }
    fn fuzz_target(&self) -> Option<&'static str> {
        Some("tape")
    }
    fn rule(&self) -> String {
        "tape-decoded expression DAGs over all operators (incl. div/rem, arrays with 1-bit index/data), widths biased to mix 1-bit and wider operands in every argument position, symbol names with and without quoting needs; commands DeclareConst / DefineConst / Assert / CheckSatAssuming (0-4 terms) / GetValue written by serialize_cmd and read by an independent SMT-LIB 2.6 front end: lexes, identifiers read back as the original names, command well-formed, term strictly well-sorted with 1-bit symbols declared Bool, value under all (<= 10 symbol bits) or 8 sampled assignments equals the reference evaluator's. Non-trivial: term with >= 1 Bool<->BitVec coercion site (1-bit operand or result of a bit-vector-only operator); distinct by hash of the written text.".into()
    }
    fn assumptions(&self) -> Vec<String> {
        vec!["smtref implements the SMT-LIB 2.6 Core/FixedSizeBitVectors/ArraysEx signatures strictly (unit-tested)".into(),
             "names containing | or \\, reserved words and theory symbols are outside SMT-LIB and not generated".into()]
    }
    fn budget(&self, tier: Tier) -> Budget {
        match tier {
            Tier::Quick => Budget { cases: 400_000, max_tape: 320 },
            Tier::Thorough => Budget { cases: 6_000_000, max_tape: 640 },
        }
    }
    fn run_tape(&self, tape: &[u8], tier: Tier, rec: &mut Recorder) -> Result<(), Failure> {
        let mut t = Tape::new(tape);
        let kind = t.below(5);
        let case = gen_case(&mut t, &gen_cfg(tier), 4);
        let ctx = &case.ctx;
        let roots = case.roots.clone();
        let all_syms: Vec<ExprRef> = case.symbols.clone();
        if all_syms.iter().any(|s| !name_ok(ctx.get_symbol_name(*s).unwrap())) {
            rec.exclude("name not expressible in SMT-LIB");
            return Ok(());
        }
        rec.eval();
        let sc = declare_all(ctx, &all_syms)?;
        let mut rng = SplitMix(hash_bytes(tape));
        let used = refeval::symbols_of(ctx, &roots);
        let dict = crate::props::c01::dictionary(ctx, &roots);
        let (envs, _) = crate::props::c01::assignments_with(ctx, &used, &mut rng, 10, 8, &dict);

        let bool_roots: Vec<ExprRef> = roots.iter().copied().filter(|r| r.get_bv_type(ctx) == Some(1)).collect();
        let (label, cmd, terms): (&str, SmtCommand, Vec<ExprRef>) = match kind {
            0 if !bool_roots.is_empty() => ("assert", SmtCommand::Assert(bool_roots[0]), vec![bool_roots[0]]),
            1 => {
                // define a fresh symbol of the root's type
                ("define-const", SmtCommand::GetValue(roots[0]), vec![roots[0]])
            }
            2 => {
                let n = (t.below(5) as usize).min(bool_roots.len());
                let ts: Vec<ExprRef> = bool_roots[..n].to_vec();
                ("check-sat-assuming", SmtCommand::CheckSatAssuming(ts.clone()), ts)
            }
            _ => ("get-value", SmtCommand::GetValue(roots[0]), vec![roots[0]]),
        };
        rec.label(&format!("cmd:{}", label));

        // ---- write and read the command
        let (text, term_sexprs): (String, Vec<SExpr>) = if label == "define-const" {
            let mut c2 = case.ctx.clone();
            let fresh = {
                let tpe = roots[0].get_type(&c2);
                let name = c2.string("fresh def".into());
                c2.symbol(name, tpe)
            };
            let text = cmd_text(&c2, &SmtCommand::DefineConst(fresh, roots[0])).map_err(|p| {
                Failure::new(format!("smt-write/define-const/{}", p.class()), p.msg.clone())
            })?;
            let cmd = smtref::read_one(&text)
                .map_err(|e| Failure::new("smt-write/define-const/lexical", format!("`{}`: {}", text.trim(), e)))?;
            let mut sc2 = sc.clone();
            match smtref::check_command(&cmd, &mut sc2, &Profile::default()) {
                Ok(CmdKind::DefineFun(n)) if n == "fresh def" => {}
                Ok(other) => {
                    return Err(Failure::new(
                        "smt-write/define-const/wrong-command",
                        format!("`{}` read as {:?}", text.trim(), other),
                    ));
                }
                Err(e) => {
                    let (tail, detail) = localise(ctx, &sc, roots[0], &envs)
                        .unwrap_or(("rejected/in-context".into(), e.clone()));
                    return Err(Failure::new(
                        format!("smt-write/{}", tail),
                        format!("{}\n`{}` rejected: {}", detail, text.trim(), e),
                    ));
                }
            }
            let body = cmd.list().unwrap()[4].clone();
            (text, vec![body])
        } else {
            let text = cmd_text(ctx, &cmd)
                .map_err(|p| Failure::new(format!("smt-write/{}/{}", label, p.class()), p.msg.clone()))?;
            let parsed = smtref::read_one(&text)
                .map_err(|e| Failure::new(format!("smt-write/{}/lexical", label), format!("`{}`: {}", text.trim(), e)))?;
            let mut sc2 = sc.clone();
            let kind = smtref::check_command(&parsed, &mut sc2, &Profile::default());
            match (&kind, label) {
                (Ok(CmdKind::Assert), "assert") | (Ok(CmdKind::GetValue(1)), "get-value") => {}
                (Ok(CmdKind::CheckSatAssuming(n)), "check-sat-assuming") if *n == terms.len() => {}
                (Ok(other), _) => {
                    return Err(Failure::new(
                        format!("smt-write/{}/wrong-command", label),
                        format!("`{}` read as {:?}", text.trim(), other),
                    ));
                }
                (Err(e), _) => {
                    let mut best = None;
                    for r in terms.iter() {
                        if let Some(x) = localise(ctx, &sc, *r, &envs) {
                            best = Some(x);
                            break;
                        }
                    }
                    let (tail, detail) = best.unwrap_or((format!("rejected/{}", label), e.clone()));
                    return Err(Failure::new(
                        format!("smt-write/{}", tail),
                        format!("{}\n`{}` rejected: {}", detail, text.trim(), e),
                    ));
                }
            }
            let l = parsed.list().unwrap();
            let ts: Vec<SExpr> = match label {
                "assert" => vec![l[1].clone()],
                _ => l[1].list().unwrap().to_vec(),
            };
            (text, ts)
        };

        // ---- value check of every term in the command
        for (e, sx) in terms.iter().zip(term_sexprs.iter()) {
            if let Err((kind, msg)) = check_sexpr_term(ctx, &sc, *e, sx, &envs, text.trim()) {
                let (tail, detail) =
                    localise(ctx, &sc, *e, &envs).unwrap_or((format!("{}/in-context", kind), msg.clone()));
                return Err(Failure::new(
                    format!("smt-write/{}", tail),
                    format!("{}\nexpr: {}\n{}", detail, refeval::show(ctx, *e), msg),
                ));
            }
        }
        // ---- second opinion of the real solvers on a slice of the cases (guards smtref, see second.rs)
        if !terms.is_empty() && !rec.frozen && hash_bytes(tape) % second_opinion_period(tier) == 3 {
            second_opinion(ctx, terms[0], &used, &envs[0], rec)?;
        }
        let mut any_site = false;
        for e in terms.iter() {
            for s in coercion_sites(ctx, *e) {
                rec.label(&format!("coercion:{}", s));
                any_site = true;
            }
        }
        if any_site {
            rec.nontrivial(hash_bytes(text.as_bytes()));
            if rec.want_sample() && text.len() < 600 {
                rec.sample(text.trim().to_string());
            }
        }
        Ok(())
    }
}
