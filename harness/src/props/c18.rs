//! C18 — the btor2 reader rejects bad input cleanly (no crash except on documented unsupported
//! operators) and only accepts well-typed systems.

use crate::btorgen::{self, BtorFile, LineKind};
use crate::engine::*;
use crate::props::c08::{parse_quiet, silence_stderr_once};
use crate::refeval::{self, deep_type_check};
use crate::tape::{Tape, hash_bytes};
use patronus::expr::{Context, ExprRef, Type, TypeCheck};
use patronus::system::TransitionSystem;
use std::sync::OnceLock;

pub struct C18;

/// panics that the reader documents as "not yet supported" (todo!/TODO messages naming the operator)
pub fn documented_unsupported(p: &PanicInfo) -> bool {
    p.file.ends_with("btor2/parse.rs")
        && (p.msg.contains("Add support for bit rotates")
            || p.msg.contains("Add support for overflow operators")
            || p.msg.contains("support fairness constraints")
            || p.msg.contains("TODO: implement support for"))
}

/// Deep check of an accepted system.
pub fn deep_check(ctx: &Context, sys: &TransitionSystem) -> Result<(), (String, String)> {
    let mut roots: Vec<ExprRef> = vec![];
    roots.extend(sys.inputs.iter());
    roots.extend(sys.outputs.iter().map(|o| o.expr));
    roots.extend(sys.bad_states.iter());
    roots.extend(sys.constraints.iter());
    for s in sys.states.iter() {
        roots.push(s.symbol);
        roots.extend(s.init.iter());
        roots.extend(s.next.iter());
    }
    deep_type_check(ctx, &roots).map_err(|m| ("ill-typed-expression".to_string(), m))?;
    for (k, s) in sys.states.iter().enumerate() {
        if !ctx[s.symbol].is_symbol() {
            return Err(("state-not-a-symbol".into(), format!("state {} is {}", k, refeval::show(ctx, s.symbol))));
        }
        let st = s.symbol.get_type(ctx);
        if let Some(i) = s.init {
            if i.get_type(ctx) != st {
                return Err(("init-type".into(), format!("state {} : {:?} has init of type {:?}", k, st, i.get_type(ctx))));
            }
        }
        if let Some(n) = s.next {
            if n.get_type(ctx) != st {
                return Err(("next-type".into(), format!("state {} : {:?} has next of type {:?}", k, st, n.get_type(ctx))));
            }
        }
    }
    for i in sys.inputs.iter() {
        if !ctx[*i].is_symbol() {
            return Err(("input-not-a-symbol".into(), refeval::show(ctx, *i)));
        }
    }
    let mut declared: rustc_hash::FxHashSet<ExprRef> = sys.inputs.iter().copied().collect();
    declared.extend(sys.states.iter().map(|s| s.symbol));
    for s in refeval::symbols_of(ctx, &roots) {
        if !declared.contains(&s) {
            return Err((
                "undeclared-symbol".into(),
                format!("expression uses symbol {} which is neither an input nor a state", refeval::show(ctx, s)),
            ));
        }
    }
    // bad states and constraints are properties: boolean (the btor2 lines carry no sort of their own)
    for (what, list) in [("bad", &sys.bad_states), ("constraint", &sys.constraints)] {
        for e in list.iter() {
            if !e.get_type(ctx).is_bit_vector() {
                return Err((format!("{}-not-a-bit-vector", what), refeval::show(ctx, *e)));
            }
            if e.get_type(ctx) != Type::BV(1) {
                return Err((format!("{}-not-boolean", what), refeval::show(ctx, *e)));
            }
        }
    }
    Ok(())
}

fn corpus() -> &'static Vec<String> {
    static C: OnceLock<Vec<String>> = OnceLock::new();
    C.get_or_init(|| {
        let mut out = vec![];
        let mut dirs = vec![std::path::PathBuf::from("/repo/inputs")];
        if let Ok(p) = std::env::var("PATRONUS_SRC") {
            dirs = vec![std::path::PathBuf::from(p).join("inputs")];
        }
        while let Some(d) = dirs.pop() {
            if let Ok(rd) = std::fs::read_dir(&d) {
                let mut entries: Vec<_> = rd.filter_map(|e| e.ok()).map(|e| e.path()).collect();
                entries.sort();
                for p in entries {
                    if p.is_dir() {
                        dirs.push(p);
                    } else if p.extension().map(|e| e == "btor" || e == "btor2").unwrap_or(false) {
                        if let Ok(s) = std::fs::read_to_string(&p) {
                            if s.len() < 6000 {
                                out.push(s);
                            }
                        }
                    }
                }
            }
        }
        out.sort();
        out
    })
}

const KEYWORDS: [&str; 40] = [
    "sort", "bitvec", "array", "input", "state", "init", "next", "output", "bad", "constraint", "fair",
    "justice", "const", "constd", "consth", "zero", "one", "ones", "not", "inc", "dec", "neg", "slice",
    "uext", "sext", "ite", "write", "read", "concat", "eq", "rol", "ror", "saddo", "umulo", "redxor", "iff",
    "sdiv", "sra", "ulte", "nand",
];
const NUMBERS: [&str; 12] = [
    "0", "1", "-1", "-0", "2", "4294967295", "4294967296", "18446744073709551616", "-4294967296",
    "99999999999999999999999999", "00", "+3",
];

fn mutate(text: &str, t: &mut Tape) -> (String, &'static str) {
    let mut lines: Vec<String> = text.lines().map(|l| l.to_string()).collect();
    if lines.is_empty() {
        return (text.to_string(), "none");
    }
    let n_edits = 1 + t.below(3);
    let mut last = "none";
    for _ in 0..n_edits {
        let li = t.below(lines.len() as u32) as usize;
        let kind = t.below(14);
        last = match kind {
            0 => {
                lines.remove(li);
                if lines.is_empty() {
                    lines.push(String::new());
                }
                "delete-line"
            }
            1 => {
                let l = lines[li].clone();
                lines.insert(li, l);
                "duplicate-line"
            }
            2 => {
                let lj = t.below(lines.len() as u32) as usize;
                lines.swap(li, lj);
                "swap-lines"
            }
            3 | 4 | 5 | 6 => {
                // replace one token
                let toks: Vec<String> = lines[li].split_whitespace().map(|s| s.to_string()).collect();
                if toks.is_empty() {
                    continue;
                }
                let ti = t.below(toks.len() as u32) as usize;
                let mut toks = toks;
                let (rep, name): (String, &'static str) = match kind {
                    3 => (NUMBERS[t.below(NUMBERS.len() as u32) as usize].to_string(), "token->number"),
                    4 => (KEYWORDS[t.below(KEYWORDS.len() as u32) as usize].to_string(), "token->keyword"),
                    5 => {
                        // another token of the file
                        let all: Vec<&str> = text.split_whitespace().collect();
                        (all[t.below(all.len() as u32) as usize].to_string(), "token->other-token")
                    }
                    _ => {
                        // negate / perturb a number
                        let cur = toks[ti].clone();
                        match cur.parse::<i64>() {
                            Ok(v) => {
                                let nv = match t.below(4) {
                                    0 => -v,
                                    1 => v + 1,
                                    2 => v - 1,
                                    _ => v.wrapping_mul(2),
                                };
                                (nv.to_string(), "number-perturbed")
                            }
                            Err(_) => (format!("{}x", cur), "token-suffix"),
                        }
                    }
                };
                toks[ti] = rep;
                lines[li] = toks.join(" ");
                name
            }
            7 => {
                // drop a token
                let mut toks: Vec<&str> = lines[li].split_whitespace().collect();
                if toks.is_empty() {
                    continue;
                }
                let ti = t.below(toks.len() as u32) as usize;
                toks.remove(ti);
                lines[li] = toks.join(" ");
                "drop-token"
            }
            8 => {
                let extras = ["ü", "\u{0}", "\u{7}", "名", "\t\t", ";", " ; x", "\r", "\u{feff}"];
                let e = extras[t.below(extras.len() as u32) as usize];
                let pos = t.below(lines[li].chars().count() as u32 + 1) as usize;
                let mut s: String = lines[li].chars().take(pos).collect();
                s.push_str(e);
                s.extend(lines[li].chars().skip(pos));
                lines[li] = s;
                "inject-chars"
            }
            9 => {
                // truncate the line
                let n = lines[li].chars().count();
                let k = t.below(n as u32 + 1) as usize;
                lines[li] = lines[li].chars().take(k).collect();
                "truncate-line"
            }
            10 => {
                // append tokens
                lines[li].push(' ');
                lines[li].push_str(NUMBERS[t.below(NUMBERS.len() as u32) as usize]);
                "append-token"
            }
            11 => {
                // move a line to the front (use before definition)
                let l = lines.remove(li);
                lines.insert(0, l);
                "move-to-front"
            }
            _ => {
                // character-level edit of one token, half of the time of the value of a constant line
                let consts: Vec<usize> = (0..lines.len())
                    .filter(|i| matches!(lines[*i].split_whitespace().nth(1), Some("const" | "constd" | "consth")))
                    .collect();
                let li = if !consts.is_empty() && t.flag() { consts[t.below(consts.len() as u32) as usize] } else { li };
                let mut toks: Vec<String> = lines[li].split_whitespace().map(|s| s.to_string()).collect();
                if toks.is_empty() {
                    continue;
                }
                let is_const = matches!(toks.get(1).map(|s| s.as_str()), Some("const" | "constd" | "consth")) && toks.len() >= 4;
                let ti = if is_const && t.chance(200) { 3 } else { t.below(toks.len() as u32) as usize };
                let mut cs: Vec<char> = toks[ti].chars().collect();
                match t.below(8) {
                    0 => cs.insert(0, '+'),
                    1 => cs.insert(0, '-'),
                    2 => cs[0] = '+',
                    3 => cs[0] = '-',
                    4 => {
                        let k = t.below(cs.len() as u32) as usize;
                        cs.remove(k);
                    }
                    5 => {
                        let k = t.below(cs.len() as u32) as usize;
                        let c = cs[k];
                        cs.insert(k, c);
                    }
                    6 => {
                        let k = t.below(cs.len() as u32 + 1) as usize;
                        cs.insert(k, ['0', '1', '9', 'f', 'F', '_'][t.below(6) as usize]);
                    }
                    _ => {
                        let k = t.below(cs.len() as u32) as usize;
                        cs[k] = ['x', '2', 'g', '+', '-', ' '][t.below(6) as usize];
                    }
                }
                toks[ti] = cs.into_iter().collect();
                lines[li] = toks.join(" ");
                "edit-characters"
            }
        };
    }
    // probes: extra output lines on a few node lines, so that the type of any node (not only of those the
    // file happens to expose) is compared with the sort its line declares
    if t.chance(100) {
        let ids: Vec<String> = lines
            .iter()
            .filter_map(|l| {
                let mut it = l.split_whitespace();
                let id = it.next()?;
                let op = it.next()?;
                if id.parse::<u64>().is_ok()
                    && !["sort", "output", "bad", "constraint", "fair", "justice", "init", "next"].contains(&op)
                {
                    Some(id.to_string())
                } else {
                    None
                }
            })
            .collect();
        let max_id = lines.iter().filter_map(|l| l.split_whitespace().next()?.parse::<u64>().ok()).max().unwrap_or(0);
        if !ids.is_empty() && max_id < u64::MAX - 8 {
            for k in 0..(1 + t.below(3)) as u64 {
                let id = &ids[t.below(ids.len() as u32) as usize];
                lines.push(format!("{} output {}", max_id + 1 + k, id));
            }
        }
    }
    (lines.join("\n") + "\n", last)
}

pub fn huge_width(text: &str) -> bool {
    for l in text.lines() {
        let toks: Vec<&str> = l.split_whitespace().collect();
        if toks.len() >= 4 && toks[1] == "sort" && toks[2] == "bitvec" {
            if toks[3].parse::<u64>().map(|n| n > (1 << 20)).unwrap_or(false) {
                return true;
            }
        }
        if toks.len() >= 5 && (toks[1] == "uext" || toks[1] == "sext") {
            if toks[4].parse::<u64>().map(|n| n > (1 << 20)).unwrap_or(false) {
                return true;
            }
        }
    }
    false
}

/// first line k such that the prefix up to k panics with an undocumented panic; its operator token
fn crashing_op(text: &str) -> Option<(String, PanicInfo, String)> {
    let lines: Vec<&str> = text.lines().collect();
    for k in 0..lines.len() {
        let prefix = lines[..=k].join("\n");
        if let Err(p) = parse_quiet(&prefix) {
            if !documented_unsupported(&p) {
                let op = lines[k].split_whitespace().nth(1).unwrap_or("?").to_string();
                let op = if op.chars().all(|c| c.is_ascii_alphanumeric()) && op.len() <= 12 { op } else { "?".into() };
                return Some((op, p, lines[k].to_string()));
            }
        }
    }
    None
}

/// The type every `output` line of the text should have, from the sort the referenced line declares
/// (tokenised like the reader: blanks and tabs, `;` starts a comment). None when the text is not plain
/// enough to tell (an id defined twice, an output that refers to something other than a node line).
pub fn declared_output_types(text: &str) -> Option<Vec<Type>> {
    use std::collections::HashMap;
    let mut def: HashMap<&str, Vec<&str>> = HashMap::new();
    let mut outputs: Vec<&str> = vec![];
    for line in text.lines() {
        let line = line.split(';').next().unwrap_or("");
        let toks: Vec<&str> = line.split([' ', '\t']).filter(|t| !t.is_empty()).collect();
        if toks.len() < 2 {
            continue;
        }
        if toks[1] == "output" {
            outputs.push(toks.get(2)?);
        }
        if def.insert(toks[0], toks.clone()).is_some() {
            return None;
        }
    }
    let width = |sid: &str| -> Option<u32> {
        let l = def.get(sid)?;
        if l.len() >= 4 && l[1] == "sort" && l[2] == "bitvec" { l[3].parse().ok() } else { None }
    };
    let mut out = vec![];
    for r in outputs {
        let id = r.strip_prefix('-').unwrap_or(r);
        let l = def.get(id)?;
        if ["sort", "output", "bad", "constraint", "fair", "justice", "init", "next"].contains(&l[1]) {
            return None;
        }
        let sort = def.get(*l.get(2)?)?;
        if sort.len() >= 4 && sort[1] == "sort" && sort[2] == "bitvec" {
            out.push(Type::BV(sort[3].parse().ok()?));
        } else if sort.len() >= 5 && sort[1] == "sort" && sort[2] == "array" {
            out.push(Type::Array(patronus::expr::ArrayType { index_width: width(sort[3])?, data_width: width(sort[4])? }));
        } else {
            return None;
        }
    }
    Some(out)
}

pub fn judge_text(text: &str, rec: &mut Recorder) -> Result<&'static str, Failure> {
    match parse_quiet(text) {
        Ok(None) => Ok("rejected"),
        Ok(Some((ctx, sys))) => match deep_check(&ctx, &sys) {
            Ok(()) => {
                // outputs have the width that the line they refer to declares
                if let Some(want) = declared_output_types(text) {
                    if want.len() == sys.outputs.len() {
                        rec.label("output-widths-compared-with-the-text");
                        for (k, (w, o)) in want.iter().zip(sys.outputs.iter()).enumerate() {
                            let got = o.expr.get_type(&ctx);
                            if got != *w {
                                return Err(Failure::new(
                                    "btor2-robust/accepted-ill-typed/output-type",
                                    format!("output {} has type {:?} but the line it refers to declares {:?}\n{}", k, got, w, text),
                                ));
                            }
                        }
                    }
                }
                Ok("accepted")
            }
            Err((kind, msg)) => Err(Failure::new(
                format!("btor2-robust/accepted-ill-typed/{}", kind),
                format!("{}\n{}", msg, text),
            )),
        },
        Err(p) => {
            if documented_unsupported(&p) {
                rec.label("documented-unsupported-operator");
                return Ok("unsupported");
            }
            let (op, p2, line) = crashing_op(text).unwrap_or(("?".into(), p.clone(), String::new()));
            if p2.file.ends_with("expr/context.rs") {
                // one root cause: operand kinds/widths are not validated before the Context
                // builders run (they debug_assert / unwrap), whatever the operator
                return Err(Failure::new(
                    format!("btor2-robust/panic-in-builder/{}", op),
                    format!("line `{}`: panic {}:{} {}\n{}", line, p2.file, p2.line, p2.msg, text),
                ));
            }
            Err(Failure::new(
                format!("btor2-robust/panic/{}/{}", op, p2.class()),
                format!("line `{}`: panic {}:{} {}\n{}", line, p2.file, p2.line, p2.msg, text),
            ))
        }
    }
}

impl Prop for C18 {
    fn id(&self) -> &'static str {
        "C18"
    }
    fn fuzz_target(&self) -> Option<&'static str> {
        Some("c18_bytes")
    }
    fn run_bytes(&self, data: &[u8], rec: &mut Recorder) -> Result<(), Failure> {
        silence_stderr_once();
        let Ok(text) = std::str::from_utf8(data) else { return Ok(()) };
        if huge_width(text) {
            return Ok(());
        }
        judge_text(text, rec).map(|_| ())
    }
    fn rule(&self) -> String {
        "valid btor2 texts (grammar-generated files and the shipped files under inputs/ below 6 kB) with 1-3 line/token level edits (delete/duplicate/swap/move lines, replace a token by a boundary number, a keyword or another token, negate/perturb numbers, drop/append tokens, inject unicode/control characters/comment starts, truncate a line, edit single characters of a token - sign prefixes, dropped or doubled digits - preferably of a constant's value; appended probe outputs on node lines) and grammar-generated ill-sorted variants; parse_str runs under catch_unwind with a panic hook. Allowed: rejection; a system passing the deep check (every reachable node type-checks, init/next have the state's type, every symbol used is a declared input/state, bads/constraints are Boolean, every output has the type that the line it refers to declares in the text); a panic whose message names a documented not-yet-supported operator. Non-trivial: text that tokenises into >= 3 well-formed lines and differs from every corpus file; distinct by hash of the text.".into()
    }
    fn budget(&self, tier: Tier) -> Budget {
        match tier {
            Tier::Quick => Budget { cases: 60_000, max_tape: 512 },
            Tier::Thorough => Budget { cases: 1_500_000, max_tape: 1024 },
        }
    }
    fn items(&self, _tier: Tier) -> u64 {
        corpus().len() as u64
    }
    fn run_item(&self, idx: u64, _tier: Tier, rec: &mut Recorder) -> Result<(), Failure> {
        silence_stderr_once();
        // every shipped small file must be accepted and pass the deep check
        let text = &corpus()[idx as usize];
        rec.eval();
        rec.label("shipped-file");
        let r = judge_text(text, rec)?;
        rec.label(&format!("shipped-file:{}", r));
        Ok(())
    }
    fn run_tape(&self, tape: &[u8], tier: Tier, rec: &mut Recorder) -> Result<(), Failure> {
        silence_stderr_once();
        let mut t = Tape::new(tape);
        let source = t.weighted(&[5, 3, 2]);
        let base: String;
        let mut edit_name = "none";
        let text = match source {
            0 => {
                let wide = t.chance(64);
                let f: BtorFile = btorgen::gen_file(&mut t, wide, if tier == Tier::Quick { 16 } else { 40 });
                base = f.render();
                let (m, e) = mutate(&base, &mut t);
                edit_name = e;
                rec.label("source:btorgen+edit");
                m
            }
            1 => {
                let c = corpus();
                if c.is_empty() {
                    return Ok(());
                }
                base = c[t.below(c.len() as u32) as usize].clone();
                let (m, e) = mutate(&base, &mut t);
                edit_name = e;
                rec.label("source:shipped+edit");
                m
            }
            _ => {
                let f = btorgen::gen_file(&mut t, false, 16);
                base = f.render();
                match btorgen::ill_sorted_variant(&f, &mut t) {
                    Some((g, _)) => {
                        rec.label("source:ill-sorted-variant");
                        // make sure unsupported operators are exercised as well
                        let _ = LineKind::Input;
                        g.render()
                    }
                    None => {
                        rec.exclude("no ill-sorted edit possible");
                        return Ok(());
                    }
                }
            }
        };
        // Widths / extension amounts beyond 2^20 bits are excluded by construction (counted): the
        // reader allocates proportionally to the width (e.g. redxor builds one node per bit), so a
        // width near 2^32 exhausts memory and time; that is resource use, not decidable as a crash here.
        if huge_width(&text) {
            rec.exclude("sort width or extension amount > 2^20");
            return Ok(());
        }
        rec.eval();
        rec.label(&format!("edit:{}", edit_name));
        if std::env::var("PV_DEBUG").is_ok() {
            println!("---- C18 text ({})\n{}----", edit_name, text);
        }
        let outcome = judge_text(&text, rec)?;
        rec.label(&format!("outcome:{}", outcome));
        let good_lines = text
            .lines()
            .filter(|l| {
                let toks: Vec<&str> = l.split_whitespace().collect();
                toks.len() >= 3 && toks[0].parse::<u64>().is_ok()
            })
            .count();
        if good_lines >= 3 && text != base {
            rec.nontrivial(hash_bytes(text.as_bytes()));
            if rec.want_sample() && text.len() < 400 {
                rec.sample(format!("[{} -> {}] {}", edit_name, outcome, text.replace('\n', " | ")));
            }
        }
        Ok(())
    }
}
