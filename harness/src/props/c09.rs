//! C09 — writing a system as btor2 and reading it back preserves it (+ name stability for parsed systems).

use crate::engine::*;
use crate::gen_sys::{SysCfg, gen_system, show_system};
use crate::props::c08::silence_stderr_once;
use crate::sysutil::{compare_positional, positional_symbols};
use crate::tape::{SplitMix, Tape, hash_bytes};
use patronus::btor2;
use patronus::expr::{Context, Expr, TypeCheck};
use patronus::system::TransitionSystem;
use std::sync::OnceLock;

pub struct C09;

fn shipped() -> &'static Vec<(String, String)> {
    static C: OnceLock<Vec<(String, String)>> = OnceLock::new();
    C.get_or_init(|| {
        let mut out = vec![];
        let root = std::env::var("PATRONUS_SRC").unwrap_or("/repo".into());
        let mut dirs = vec![std::path::PathBuf::from(root).join("inputs")];
        while let Some(d) = dirs.pop() {
            if let Ok(rd) = std::fs::read_dir(&d) {
                let mut entries: Vec<_> = rd.filter_map(|e| e.ok()).map(|e| e.path()).collect();
                entries.sort();
                for p in entries {
                    if p.is_dir() {
                        dirs.push(p);
                    } else if p.extension().map(|e| e == "btor" || e == "btor2").unwrap_or(false) {
                        if let Ok(s) = std::fs::read_to_string(&p) {
                            out.push((p.display().to_string(), s));
                        }
                    }
                }
            }
        }
        out.sort();
        out
    })
}

fn write(ctx: &Context, sys: &TransitionSystem) -> Result<Result<String, String>, PanicInfo> {
    guard(|| {
        let mut buf = Vec::new();
        match btor2::serialize(ctx, &mut buf, sys) {
            Ok(()) => Ok(String::from_utf8_lossy(&buf).to_string()),
            Err(e) => Err(e.to_string()),
        }
    })
}

fn literal_shapes(ctx: &Context, sys: &TransitionSystem) -> [bool; 4] {
    use baa::BitVecOps;
    let mut shapes = [false; 4];
    let roots: Vec<_> = sys.get_all_exprs();
    for n in crate::refeval::reachable(ctx, &roots) {
        if let Expr::BVLiteral(v) = &ctx[n] {
            let v = v.get(ctx);
            if v.is_zero() {
                shapes[0] = true;
            } else if v.is_one() {
                shapes[1] = true;
            } else if v.is_all_ones() {
                shapes[2] = true;
            } else {
                shapes[3] = true;
            }
        }
    }
    shapes
}

fn explicit_names(ctx: &Context, sys: &TransitionSystem) -> Option<(Vec<String>, Vec<String>, Vec<String>)> {
    let auto = |n: &str| {
        ["_input", "_state", "_output", "_bad", "_constraint"].iter().any(|p| {
            n == *p || (n.starts_with(&format!("{}_", p)) && n[p.len() + 1..].chars().all(|c| c.is_ascii_digit()))
        })
    };
    let ins: Vec<String> = sys.inputs.iter().map(|i| ctx.get_symbol_name(*i).unwrap_or("").to_string()).collect();
    let sts: Vec<String> = sys.states.iter().map(|s| ctx.get_symbol_name(s.symbol).unwrap_or("").to_string()).collect();
    let outs: Vec<String> = sys.outputs.iter().map(|o| ctx[o.name].to_string()).collect();
    // distinct: no two inputs/states share a name, no two outputs share a name, and an output may carry
    // the name of an input or state only if it is a label on exactly that symbol (this is how a btor2
    // file names an otherwise anonymous state, and what the reader produces for `output <state> <name>`)
    let mut all: Vec<&String> = ins.iter().chain(sts.iter()).chain(outs.iter()).collect();
    if all.iter().any(|n| n.is_empty() || auto(n)) {
        return None;
    }
    let mut syms: Vec<&String> = ins.iter().chain(sts.iter()).collect();
    let n = syms.len();
    syms.sort();
    syms.dedup();
    if syms.len() != n {
        return None;
    }
    let mut os: Vec<&String> = outs.iter().collect();
    let n = os.len();
    os.sort();
    os.dedup();
    if os.len() != n {
        return None;
    }
    for o in sys.outputs.iter() {
        let name = ctx[o.name].to_string();
        if syms.contains(&&name) && ctx.get_symbol_name(o.expr) != Some(name.as_str()) {
            return None;
        }
    }
    all.clear();
    Some((ins, sts, outs))
}

/// write -> read into the same context -> positional comparison
fn roundtrip(
    ctx: &mut Context,
    sys: &TransitionSystem,
    rng: &mut SplitMix,
    exh_bits: u32,
    samples: usize,
    rec: &mut Recorder,
) -> Result<Option<(String, TransitionSystem)>, Failure> {
    let text = match write(ctx, sys) {
        Err(p) => {
            if p.msg.contains("unregistered symbol") {
                rec.exclude("writer rejects: undeclared symbol");
                return Ok(None);
            }
            return Err(Failure::new(
                format!("btor2-write/{}", p.class()),
                format!("panic {}:{} {}\n{}", p.file, p.line, p.msg, show_system(ctx, sys)),
            ));
        }
        Ok(Err(e)) => {
            if e.contains("ArrayConstant") {
                rec.exclude("writer rejects: constant array outside init");
                return Ok(None);
            }
            return Err(Failure::new("btor2-write/io-error", format!("{}\n{}", e, show_system(ctx, sys))));
        }
        Ok(Ok(t)) => t,
    };
    let parsed = guard(|| btor2::parse_str(ctx, &text, Some("rt")));
    let sys2 = match parsed {
        Err(p) => {
            return Err(Failure::new(
                format!("btor2-roundtrip/reader-panic/{}", p.class()),
                format!("panic {}:{} {}\n{}", p.file, p.line, p.msg, text),
            ));
        }
        Ok(None) => {
            return Err(Failure::new(
                "btor2-roundtrip/reader-rejects-writer-output",
                format!("{}\n--- written text:\n{}", show_system(ctx, sys), text),
            ));
        }
        Ok(Some(s)) => s,
    };
    let syms = positional_symbols(sys);
    let (envs, _) = crate::sysutil::environments_for(ctx, &syms, &sys.get_all_exprs(), rng, exh_bits, samples);
    if let Err(m) = compare_positional(ctx, sys, &sys2, &envs) {
        // localise by operator of the root that differs: use the kind and the first word of msg
        return Err(Failure::new(
            format!("btor2-roundtrip/{}", m.kind),
            format!("{}\n{}\n--- written text:\n{}", m.msg, show_system(ctx, sys), text),
        ));
    }
    Ok(Some((text, sys2)))
}

impl Prop for C09 {
    fn id(&self) -> &'static str {
        "C09"
    }
    fn fuzz_target(&self) -> Option<&'static str> {
        Some("tape")
    }
    fn rule(&self) -> String {
        "generated transition systems (bit-vector and array states, constant/expression/absent init over earlier states, constant states, inputs, constraints, 1-3 bads, outputs incl. labels that alias states or inputs, debug names on intermediate nodes; every state has init or next; single-token names) plus every btor2 file shipped under inputs/: serialize -> parse_str into the same Context; same number and types of inputs/states/outputs/bads/constraints; each init/next/output/bad/constraint is the identical reference or reference-evaluator-equal with symbols paired by position (exhaustive <= 14 symbol bits, else 64 samples; shipped files 4 samples); for parsed systems with explicit pairwise distinct input/state/output names a further write/read cycle must keep them. Systems the writer rejects (constant array outside init, undeclared symbol) are skipped and counted. Non-trivial: system with an array state, or a label aliasing a state/input, or literals of >= 3 of the shapes zero/one/ones/other; distinct by hash of the written text.".into()
    }
    fn budget(&self, tier: Tier) -> Budget {
        match tier {
            Tier::Quick => Budget { cases: 24_000, max_tape: 640 },
            Tier::Thorough => Budget { cases: 500_000, max_tape: 1024 },
        }
    }
    fn items(&self, _tier: Tier) -> u64 {
        shipped().len() as u64
    }
    fn case_time_limit(&self) -> u64 {
        600
    }
    fn run_item(&self, idx: u64, tier: Tier, rec: &mut Recorder) -> Result<(), Failure> {
        silence_stderr_once();
        let (path, text) = &shipped()[idx as usize];
        if tier == Tier::Quick && text.len() > 200_000 {
            rec.exclude("shipped file > 200 kB (thorough tier only)");
            return Ok(());
        }
        let mut ctx = Context::default();
        let sys = match guard(|| btor2::parse_str(&mut ctx, text, Some("shipped"))) {
            Ok(Some(s)) => s,
            Ok(None) => {
                rec.exclude("shipped file rejected by the reader");
                return Ok(());
            }
            Err(p) => {
                if crate::props::c18::documented_unsupported(&p) {
                    rec.exclude("shipped file uses an unsupported operator");
                    return Ok(());
                }
                return Err(Failure::new(
                    format!("btor2-roundtrip/shipped-file-panic/{}", p.class()),
                    format!("{}: {}", path, p.msg),
                ));
            }
        };
        rec.eval();
        rec.label("shipped-file");
        let mut rng = SplitMix(hash_bytes(path.as_bytes()));
        let r = roundtrip(&mut ctx, &sys, &mut rng, 0, 4, rec).map_err(|mut f| {
            f.detail = format!("file {}\n{}", path, f.detail.chars().take(3000).collect::<String>());
            f
        })?;
        if let Some((t2, sys2)) = r {
            rec.nontrivial(hash_bytes(t2.as_bytes()));
            self.name_clause(&mut ctx, &sys2, rec, path)?;
        }
        Ok(())
    }
    fn run_tape(&self, tape: &[u8], _tier: Tier, rec: &mut Recorder) -> Result<(), Failure> {
        silence_stderr_once();
        let mut t = Tape::new(tape);
        let cfg = SysCfg {
            max_state_bits: 10,
            max_input_bits: 4,
            wide_states: true,
            divrem: true,
            many_outputs: true,
            token_names: true,
            ..SysCfg::default()
        };
        let mut case = gen_system(&mut t, &cfg);
        // the reader canonicalises states without init and next to inputs: give them a next
        for k in 0..case.sys.states.len() {
            let s = case.sys.states[k];
            if s.init.is_none() && s.next.is_none() {
                case.sys.states[k].next = Some(s.symbol);
            }
        }
        let ctx = &mut case.ctx;
        let sys = case.sys.clone();
        for n in crate::refeval::reachable(ctx, &case.sys.get_all_exprs()) {
            rec.label(&format!("op:{}", crate::refeval::op_name(&ctx[n])));
        }
        rec.eval();
        let mut rng = SplitMix(hash_bytes(tape));
        let Some((text, sys2)) = roundtrip(ctx, &sys, &mut rng, 14, 64, rec)? else {
            return Ok(());
        };
        let has_array = sys.states.iter().any(|s| s.symbol.get_type(ctx).is_array());
        let alias = sys.outputs.iter().any(|o| ctx[o.expr].is_symbol());
        let shapes = literal_shapes(ctx, &sys).iter().filter(|b| **b).count();
        if has_array {
            rec.label("array-state");
        }
        if alias {
            rec.label("label-aliases-symbol");
        }
        if has_array || alias || shapes >= 3 {
            rec.nontrivial(hash_bytes(text.as_bytes()));
            if rec.want_sample() && text.len() < 900 {
                rec.sample(text.replace('\n', " | "));
            }
        }
        self.name_clause(ctx, &sys2, rec, "generated")?;
        Ok(())
    }
}

impl C09 {
    /// names of a *parsed* system survive a further write/read cycle
    fn name_clause(&self, ctx: &mut Context, sys2: &TransitionSystem, rec: &mut Recorder, origin: &str) -> Result<(), Failure> {
        let Some((ins, sts, outs)) = explicit_names(ctx, sys2) else {
            rec.label("name-clause:not-applicable(auto or duplicate names)");
            return Ok(());
        };
        let text2 = match write(ctx, sys2) {
            Ok(Ok(t)) => t,
            _ => return Ok(()), // judged by the round-trip part
        };
        // a fresh context: names must not depend on what is already interned
        let mut c3 = Context::default();
        let sys3 = match guard(|| btor2::parse_str(&mut c3, &text2, Some("rt2"))) {
            Ok(Some(s)) => s,
            _ => {
                return Err(Failure::new(
                    "btor2-roundtrip/second-cycle-rejected",
                    format!("{}: second write/read cycle failed\n{}", origin, text2.chars().take(3000).collect::<String>()),
                ));
            }
        };
        let ins3: Vec<String> = sys3.inputs.iter().map(|i| c3.get_symbol_name(*i).unwrap_or("").to_string()).collect();
        let sts3: Vec<String> = sys3.states.iter().map(|s| c3.get_symbol_name(s.symbol).unwrap_or("").to_string()).collect();
        let outs3: Vec<String> = sys3.outputs.iter().map(|o| c3[o.name].to_string()).collect();
        rec.label("name-clause:checked");
        // a bad/constraint that is directly a state or input symbol takes that symbol's name as its
        // label; the writer's alias scheme then collides with the label on re-parse
        let label_on_symbol = sys2
            .bad_states
            .iter()
            .chain(sys2.constraints.iter())
            .any(|e| ctx[*e].is_symbol());
        for (what, a, b) in [("input", &ins, &ins3), ("state", &sts, &sts3), ("output", &outs, &outs3)] {
            if a != b {
                return Err(Failure::new(
                    format!("btor2-roundtrip/names-changed/{}{}", what, if label_on_symbol { "/label-on-symbol" } else { "" }),
                    format!("{}: {} names {:?} became {:?}\n{}", origin, what, a, b, text2.chars().take(3000).collect::<String>()),
                ));
            }
        }
        Ok(())
    }
}
