//! C17 — the cone of influence (full / init / combinational) is sufficient and syntactically tight.

use crate::engine::*;
use crate::gen_sys::{SysCfg, gen_system, show_system};
use crate::refeval::{self, Env, children, reachable};
use crate::refsim::RefSim;
use crate::refval::Val;
use crate::sysutil::random_val;
use crate::tape::{SplitMix, Tape, hash_bytes};
use patronus::expr::{Context, ExprRef, TypeCheck};
use patronus::system::TransitionSystem;
use patronus::system::analysis::{cone_of_influence, cone_of_influence_comb, cone_of_influence_init};
use rustc_hash::FxHashSet;

pub struct C17;

#[derive(Clone, Copy, PartialEq, Eq, Debug)]
enum Variant {
    Full,
    Init,
    Comb,
}

/// the harness' own syntactic dependency closure
fn closure(ctx: &Context, sys: &TransitionSystem, root: ExprRef, v: Variant) -> FxHashSet<ExprRef> {
    let mut out = FxHashSet::default();
    let mut seen = FxHashSet::default();
    let mut todo = vec![root];
    while let Some(e) = todo.pop() {
        if !seen.insert(e) {
            continue;
        }
        for c in children(&ctx[e]) {
            todo.push(c);
        }
        if ctx[e].is_symbol() {
            if let Some(s) = sys.states.iter().find(|s| s.symbol == e) {
                out.insert(e);
                if v != Variant::Comb {
                    if let Some(i) = s.init {
                        todo.push(i);
                    }
                }
                if v == Variant::Full {
                    if let Some(n) = s.next {
                        todo.push(n);
                    }
                }
            } else if sys.inputs.contains(&e) {
                out.insert(e);
            }
        }
    }
    out
}

struct Exec {
    free_init: Vec<Val>,
    inputs: Vec<Vec<Val>>,
    free_next: Vec<Vec<Val>>,
}

fn random_exec(sim: &RefSim, rng: &mut SplitMix, steps: usize) -> Exec {
    Exec {
        free_init: sim.state_types.iter().map(|t| random_val(rng, *t)).collect(),
        inputs: (0..steps).map(|_| sim.input_types.iter().map(|t| random_val(rng, *t)).collect()).collect(),
        free_next: (0..steps).map(|_| sim.state_types.iter().map(|t| random_val(rng, *t)).collect()).collect(),
    }
}

/// values of `root` at steps 0..steps-1
fn run(sim: &RefSim, ex: &Exec, root: ExprRef, steps: usize) -> Result<Vec<Val>, String> {
    let mut s = sim.initial(&ex.free_init, &ex.inputs[0])?;
    let mut out = vec![];
    for k in 0..steps {
        out.push(sim.eval(&s, &ex.inputs[k], root)?);
        s = sim.next(&s, &ex.inputs[k], &ex.free_next[k])?;
    }
    Ok(out)
}

impl Prop for C17 {
    fn id(&self) -> &'static str {
        "C17"
    }
    fn fuzz_target(&self) -> Option<&'static str> {
        Some("tape")
    }
    fn rule(&self) -> String {
        "generated transition systems; roots = every state, output, bad, constraint, init, next plus random sub-expressions; for cone_of_influence / _init / _comb: (a) result contains only inputs and states of the system, no duplicates; (b) tight: result is a subset of the harness' own syntactic dependency closure (children, plus init links, plus next links per variant); (c) sufficient by metamorphic perturbation in the reference simulator: 16 pairs of executions that agree on the cone (cone inputs at every step, free initial values and free next values of cone states) and differ arbitrarily elsewhere give the root the same value - at steps 0..4 for the full cone, at step 0 for the init cone, as a function of the current symbols for the combinational cone. Non-trivial: root whose cone is a strict non-empty subset of inputs+states and where an excluded symbol occurs elsewhere in the system; distinct by hash of (system, root, variant).".into()
    }
    fn budget(&self, tier: Tier) -> Budget {
        match tier {
            Tier::Quick => Budget { cases: 32_000, max_tape: 640 },
            Tier::Thorough => Budget { cases: 320_000, max_tape: 1024 },
        }
    }
    fn run_tape(&self, tape: &[u8], _tier: Tier, rec: &mut Recorder) -> Result<(), Failure> {
        let mut t = Tape::new(tape);
        let cfg = SysCfg { max_state_bits: 12, max_input_bits: 6, wide_states: true, ..SysCfg::default() };
        let case = gen_system(&mut t, &cfg);
        let ctx = &case.ctx;
        let sys = &case.sys;
        let text = show_system(ctx, sys);
        let mut rng = SplitMix(hash_bytes(tape));
        let sim = RefSim::new(ctx, sys);
        let mut roots: Vec<ExprRef> = sys.get_all_exprs();
        let all = reachable(ctx, &roots);
        for _ in 0..3 {
            if !all.is_empty() {
                roots.push(all[rng.below(all.len() as u64) as usize]);
            }
        }
        roots.sort();
        roots.dedup();
        let all_syms: Vec<ExprRef> = {
            let mut v = sys.inputs.clone();
            v.extend(sys.states.iter().map(|s| s.symbol));
            v
        };
        let used_somewhere: FxHashSet<ExprRef> = all.iter().copied().filter(|e| ctx[*e].is_symbol()).collect();
        for root in roots.iter().copied() {
            for v in [Variant::Full, Variant::Init, Variant::Comb] {
                let vname = format!("{:?}", v).to_lowercase();
                let got = guard(|| match v {
                    Variant::Full => cone_of_influence(ctx, sys, root),
                    Variant::Init => cone_of_influence_init(ctx, sys, root),
                    Variant::Comb => cone_of_influence_comb(ctx, sys, root),
                });
                let cone = match got {
                    Ok(c) => c,
                    Err(p) => {
                        return Err(Failure::new(
                            format!("coi/{}/{}", vname, p.class()),
                            format!("root {}: panic {}\n{}", refeval::show(ctx, root), p.msg, text),
                        ));
                    }
                };
                // (a)
                let set: FxHashSet<ExprRef> = cone.iter().copied().collect();
                if set.len() != cone.len() {
                    return Err(Failure::new(
                        format!("coi/{}/duplicates", vname),
                        format!("root {}: cone lists a symbol twice\n{}", refeval::show(ctx, root), text),
                    ));
                }
                for s in cone.iter() {
                    if !all_syms.contains(s) {
                        return Err(Failure::new(
                            format!("coi/{}/not-an-input-or-state", vname),
                            format!("root {}: {} is in the cone\n{}", refeval::show(ctx, root), refeval::show(ctx, *s), text),
                        ));
                    }
                }
                // (b)
                let cl = closure(ctx, sys, root, v);
                for s in cone.iter() {
                    if !cl.contains(s) {
                        return Err(Failure::new(
                            format!("coi/{}/not-tight", vname),
                            format!(
                                "root {}: {} is in the cone but the root does not depend on it syntactically\n{}",
                                refeval::show(ctx, root),
                                refeval::show(ctx, *s),
                                text
                            ),
                        ));
                    }
                }
                // (c)
                let in_cone = |e: &ExprRef| set.contains(e);
                let steps = match v {
                    Variant::Full => 5,
                    Variant::Init => 1,
                    Variant::Comb => 0,
                };
                for _pair in 0..16 {
                    if v == Variant::Comb {
                        let mut ea = Env::default();
                        let mut eb = Env::default();
                        for s in all_syms.iter() {
                            let va = random_val(&mut rng, s.get_type(ctx));
                            let vb = if in_cone(s) { va.clone() } else { random_val(&mut rng, s.get_type(ctx)) };
                            ea.insert(*s, va);
                            eb.insert(*s, vb);
                        }
                        let ra = refeval::eval(ctx, &ea, root).map_err(|m| Failure::new("harness/c17", m))?;
                        let rb = refeval::eval(ctx, &eb, root).map_err(|m| Failure::new("harness/c17", m))?;
                        if !ra.sem_eq(&rb) {
                            return Err(Failure::new(
                                format!("coi/{}/insufficient", vname),
                                format!(
                                    "root {} changes from {} to {} although all cone symbols {:?} agree\n{}",
                                    refeval::show(ctx, root),
                                    ra.short(),
                                    rb.short(),
                                    cone.iter().map(|c| refeval::show(ctx, *c)).collect::<Vec<_>>(),
                                    text
                                ),
                            ));
                        }
                        continue;
                    }
                    let a = random_exec(&sim, &mut rng, steps);
                    let mut b = random_exec(&sim, &mut rng, steps);
                    for (k, st) in sys.states.iter().enumerate() {
                        if in_cone(&st.symbol) {
                            b.free_init[k] = a.free_init[k].clone();
                            for s in 0..steps {
                                b.free_next[s][k] = a.free_next[s][k].clone();
                            }
                        }
                    }
                    for (k, i) in sys.inputs.iter().enumerate() {
                        if in_cone(i) {
                            for s in 0..steps {
                                b.inputs[s][k] = a.inputs[s][k].clone();
                            }
                        }
                    }
                    let ra = run(&sim, &a, root, steps).map_err(|m| Failure::new("harness/c17", m))?;
                    let rb = run(&sim, &b, root, steps).map_err(|m| Failure::new("harness/c17", m))?;
                    for (s, (x, y)) in ra.iter().zip(rb.iter()).enumerate() {
                        if !x.sem_eq(y) {
                            return Err(Failure::new(
                                format!("coi/{}/insufficient", vname),
                                format!(
                                    "root {} differs at step {} ({} vs {}) between two executions that agree on the cone {:?}\n{}",
                                    refeval::show(ctx, root),
                                    s,
                                    x.short(),
                                    y.short(),
                                    cone.iter().map(|c| refeval::show(ctx, *c)).collect::<Vec<_>>(),
                                    text
                                ),
                            ));
                        }
                    }
                }
                rec.eval();
                rec.label(&format!("variant:{}", vname));
                let strict = !cone.is_empty() && cone.len() < all_syms.len();
                let excluded_used = all_syms.iter().any(|s| !set.contains(s) && used_somewhere.contains(s));
                if strict && excluded_used {
                    rec.nontrivial(hash_bytes(format!("{}|{:?}|{}", text, root, vname).as_bytes()));
                    if rec.want_sample() {
                        rec.sample(format!(
                            "{} cone of {} = {:?} in {}",
                            vname,
                            refeval::show(ctx, root),
                            cone.iter().map(|c| refeval::show(ctx, *c)).collect::<Vec<_>>(),
                            text
                        ));
                    }
                }
            }
        }
        Ok(())
    }
}
