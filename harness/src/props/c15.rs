//! C15 — solver faults surface as errors (or an Unknown verdict), never as verdicts or hangs, and a
//! solver error message is carried unmangled. Fault enumeration: every response-bearing point of
//! the conversation x every fault kind.

use crate::engine::*;
use crate::gen_sys::{SysCfg, gen_system, show_system};
use crate::mcrun::{Engine, McOutcome, run_mc};
use crate::refsim::{RefSim, reachability};
use crate::shim::{self, ShimCfg};
use crate::tape::{Tape, hash_bytes};
use patronus::expr::Context;
use patronus::smt::{Logic, Solver, SolverContext};
use patronus::system::TransitionSystem;
use std::collections::HashMap;
use std::sync::Mutex;

pub struct C15;

pub const KINDS: [&str; 12] = [
    "err1", "err", "errlong", "errsemi", "unknown", "empty", "unbalanced", "exit", "crash", "garbage", "extraclose",
    "tailclose",
];

fn n_systems(tier: Tier) -> u64 {
    match tier {
        Tier::Quick => 3,
        Tier::Thorough => 12,
    }
}
fn max_pos(tier: Tier) -> u64 {
    match tier {
        Tier::Quick => 12,
        Tier::Thorough => 80,
    }
}
const ENGINES: u64 = 4; // bmc, pdr with cores, pdr without cores, bare SolverContext session

static SYSTEMS: Mutex<Option<HashMap<u64, Vec<u8>>>> = Mutex::new(None);

fn sys_cfg() -> SysCfg {
    SysCfg {
        max_state_bits: 5,
        max_input_bits: 2,
        max_states: 2,
        max_inputs: 1,
        arrays: false,
        expr_steps: 3,
        names_and_aliases: false,
        mc_bias: true,
        ..SysCfg::default()
    }
}

/// deterministic systems: the i-th system is decoded from a fixed pseudo-random tape; the tape is
/// searched once per process (even i -> unsafe at depth 1..4, odd i -> safe with >= 3 reachable states)
fn system(i: u64) -> (Context, TransitionSystem, String) {
    let cached: Option<Vec<u8>> = {
        let mut g = SYSTEMS.lock().unwrap();
        g.get_or_insert_with(HashMap::new).get(&i).cloned()
    };
    let decode = |tape: &[u8]| {
        let mut t = Tape::new(tape);
        let case = gen_system(&mut t, &sys_cfg());
        let text = show_system(&case.ctx, &case.sys);
        (case.ctx, case.sys, text)
    };
    if let Some(tape) = cached {
        return decode(&tape);
    }
    let mut sm = crate::tape::SplitMix(0xC15 + i * 7919);
    let mut first: Option<Vec<u8>> = None;
    let mut chosen: Option<Vec<u8>> = None;
    for _ in 0..3000 {
        let tape: Vec<u8> = (0..300).map(|_| (sm.next() & 0xff) as u8).collect();
        let (ctx, sys, _) = decode(&tape);
        let sim = RefSim::new(&ctx, &sys);
        let Ok(reach) = reachability(&sim) else { continue };
        let ok = if i % 2 == 0 {
            // counterexample a few steps deep / safe system with a real frontier: long conversations
            matches!(reach.min_any_bad(), Some(d) if (2..=4).contains(&d))
        } else {
            reach.min_any_bad().is_none() && reach.reachable >= 4 && reach.diameter >= 2 && reach.diameter <= 12
        };
        if first.is_none() {
            first = Some(tape.clone());
        }
        if ok {
            chosen = Some(tape);
            break;
        }
    }
    let tape = chosen.or(first).unwrap();
    SYSTEMS.lock().unwrap().get_or_insert_with(HashMap::new).insert(i, tape.clone());
    decode(&tape)
}

#[derive(Clone, Debug)]
struct Clean {
    outcome: String,
    responses: u64,
    /// wall-clock seconds of the clean run in this worker
    secs: f64,
}

static CLEAN: Mutex<Option<HashMap<(u64, u64), Clean>>> = Mutex::new(None);

fn engine_of(e: u64) -> Option<Engine> {
    match e {
        0 => Some(Engine::Bmc { individually: false, k: 6, check_constraints: false }),
        1 => Some(Engine::Pdr { disable_cores: false }),
        2 => Some(Engine::Pdr { disable_cores: true }),
        _ => None,
    }
}

/// bare SolverContext session: declare, assert, check, get-value, check-assuming, get-unsat-assumptions
fn raw_session(cfg: &ShimCfg) -> Result<Result<String, String>, PanicInfo> {
    shim::apply(cfg);
    guard(|| -> Result<String, String> {
        let mut ctx = Context::default();
        let mut s = patronus::smt::Z3.start(None).map_err(|e| format!("START:{}", e))?;
        let e = |x: patronus::smt::Error| format!("{}", x);
        s.set_logic(Logic::All).map_err(e)?;
        let a = ctx.bv_symbol("a", 4);
        let b = ctx.bv_symbol("b", 1);
        s.declare_const(&ctx, a).map_err(e)?;
        s.declare_const(&ctx, b).map_err(e)?;
        let three = ctx.bit_vec_val(3, 4);
        let eq = ctx.equal(a, three);
        s.assert(&ctx, eq).map_err(e)?;
        let r1 = s.check_sat().map_err(e)?;
        let v = s.get_value(&mut ctx, a).map_err(e)?;
        let nb = ctx.not(b);
        let r2 = s.check_sat_assuming(&ctx, [b, nb]).map_err(e)?;
        let core = s.get_unsat_assumptions(&mut ctx).map_err(e)?;
        s.push().map_err(e)?;
        let r3 = s.check_sat().map_err(e)?;
        s.pop().map_err(e)?;
        Ok(format!("{:?}/{:?}/{:?}/{:?}/core{}", r1, crate::refeval::lit_value(&ctx, v).map(|x| x.short()), r2, r3, core.len()))
    })
}

fn run(sys_idx: u64, eng: u64, cfg: &ShimCfg) -> (String, Option<String>, Option<PanicInfo>) {
    // returns (outcome name, error text, panic)
    match engine_of(eng) {
        Some(engine) => {
            let (mut ctx, sys, _) = system(sys_idx);
            match run_mc(&mut ctx, &sys, 2, engine, cfg) {
                McOutcome::Success => ("success".into(), None, None),
                McOutcome::Unknown => ("unknown".into(), None, None),
                McOutcome::Fail(_) => ("fail".into(), None, None),
                McOutcome::Err(m) => ("error".into(), Some(m), None),
                McOutcome::StartFailed(m) => ("start-failed".into(), Some(m), None),
                McOutcome::Panic(p) => ("panic".into(), None, Some(p)),
            }
        }
        None => match raw_session(cfg) {
            Ok(Ok(s)) => (format!("ok:{}", s), None, None),
            Ok(Err(m)) => {
                if let Some(x) = m.strip_prefix("START:") {
                    ("start-failed".into(), Some(x.to_string()), None)
                } else {
                    ("error".into(), Some(m), None)
                }
            }
            Err(p) => ("panic".into(), None, Some(p)),
        },
    }
}

fn clean_run(sys_idx: u64, eng: u64) -> Result<Clean, String> {
    let mut g = CLEAN.lock().unwrap();
    let map = g.get_or_insert_with(HashMap::new);
    if let Some(c) = map.get(&(sys_idx, eng)) {
        return Ok(c.clone());
    }
    let log = shim::tmp_log_path(&format!("c15-{}-{}", sys_idx, eng));
    let _ = std::fs::remove_file(&log);
    let cfg = ShimCfg { seed: 0, core: "z3".into(), fault: None, log: Some(log.clone()) };
    let started = std::time::Instant::now();
    let (outcome, err, panic) = run(sys_idx, eng, &cfg);
    let secs = started.elapsed().as_secs_f64();
    let entries = shim::read_log(&log);
    let _ = std::fs::remove_file(&log);
    if let Some(p) = panic {
        return Err(format!("clean run panicked: {} {}", p.file, p.msg));
    }
    if outcome == "error" || outcome == "start-failed" {
        return Err(format!("clean run failed: {:?}", err));
    }
    // response points of the first solver process (the fault is applied per process)
    let first_pid = entries.first().map(|e| e.pid).unwrap_or(0);
    let responses = entries
        .iter()
        .filter(|e| e.pid == first_pid && matches!(e.kind.as_str(), "check" | "value" | "core"))
        .map(|e| e.n)
        .max()
        .unwrap_or(0);
    let c = Clean { outcome, responses, secs };
    map.insert((sys_idx, eng), c.clone());
    Ok(c)
}

impl Prop for C15 {
    fn id(&self) -> &'static str {
        "C15"
    }
    fn level(&self) -> &'static str {
        "fault_enumeration"
    }
    fn rule(&self) -> String {
        "fault enumeration: fixed generated systems (safe and unsafe) x engine {bmc, pdr with unsat-core generalisation, pdr without, a bare SolverContext session: declare/assert/check-sat/get-value/check-sat-assuming/get-unsat-assumptions/push/pop} ; a clean run under the reference solver's log gives the number N of response-bearing points (check-sat, check-sat-assuming, get-value, get-unsat-assumptions); then EVERY position n <= min(N, 12 quick / 80 thorough) x 12 fault kinds (error reply with a 1-character, a typical and a 4 kB message, and a message containing `;` and `|`; `unknown`; empty line; unbalanced reply followed by exit; silent exit; crash with non-zero status; non-s-expression garbage; a lone `)` and `unsat)` - more closing than opening parentheses - with the solver staying alive) is injected at the n-th response. Each faulted run executes in a killable child process under a 90 s limit; system/engine pairs whose clean run takes more than 6 s are excluded and counted, so the limit is >= 15 x the clean time. The result must be an error or an Unknown verdict - never success/failure (the fault sits on an answer the run consumed), never a panic, never a timeout; for error replies the returned error must contain the solver's message verbatim. Non-trivial: position > 1 and a kind other than silent exit; distinct by (system, engine, position, kind).".into()
    }
    fn assumptions(&self) -> Vec<String> {
        vec!["a run that needs more than 90 s after a fault (clean runs of the enumerated systems take < 6 s, typically < 1 s) is counted as blocking forever".into()]
    }
    fn budget(&self, _tier: Tier) -> Budget {
        Budget { cases: 0, max_tape: 16 }
    }
    fn isolated(&self) -> bool {
        true
    }
    fn timeout_is_failure(&self) -> bool {
        true
    }
    fn case_time_limit(&self) -> u64 {
        90
    }
    fn setup(&self, _tier: Tier) -> Result<(), String> {
        shim::install().map(|_| ())
    }
    fn items(&self, tier: Tier) -> u64 {
        n_systems(tier) * ENGINES * max_pos(tier) * KINDS.len() as u64
    }
    fn run_tape(&self, _tape: &[u8], _tier: Tier, _rec: &mut Recorder) -> Result<(), Failure> {
        Ok(())
    }
    fn timeout_signature(&self, payload: &Payload, tier: Tier) -> String {
        match payload {
            Payload::Item(idx) => {
                let nk = KINDS.len() as u64;
                let kind = KINDS[(idx % nk) as usize];
                let eng = (idx / nk / max_pos(tier)) % ENGINES;
                format!("hang/solver-fault/{}/{}", kind, ["bmc", "pdr-cores", "pdr-nocores", "raw-session"][eng as usize])
            }
            _ => "hang/solver-fault".into(),
        }
    }
    fn run_item(&self, idx: u64, tier: Tier, rec: &mut Recorder) -> Result<(), Failure> {
        let nk = KINDS.len() as u64;
        let kind = KINDS[(idx % nk) as usize];
        let pos = 1 + (idx / nk) % max_pos(tier);
        let eng = (idx / nk / max_pos(tier)) % ENGINES;
        let sys_idx = idx / nk / max_pos(tier) / ENGINES;
        let eng_name = ["bmc", "pdr-cores", "pdr-nocores", "raw-session"][eng as usize];
        let clean = clean_run(sys_idx, eng).map_err(|m| Failure::new("harness/c15-clean-run", format!("system {} engine {}: {}", sys_idx, eng_name, m)))?;
        if pos > clean.responses {
            rec.exclude("position beyond the last response of the clean run");
            return Ok(());
        }
        // the hang oracle is a wall-clock limit on the whole case (clean run once per worker + faulted
        // run, which ends no later than the clean one): only systems whose clean run is far below it
        if clean.secs > 6.0 {
            rec.exclude("clean run of this system/engine takes > 6 s (too close to the hang limit)");
            return Ok(());
        }
        rec.eval();
        rec.label(&format!("kind:{}", kind));
        rec.label(&format!("engine:{}", eng_name));
        rec.label(&format!("position:{}", if pos <= 3 { pos.to_string() } else if pos <= 10 { "4-10".into() } else { ">10".into() }));
        let cfg = ShimCfg { seed: 0, core: "z3".into(), fault: Some((pos, kind.to_string())), log: None };
        let (outcome, err, panic) = run(sys_idx, eng, &cfg);
        let what = format!(
            "system {} ({}) engine {} fault `{}` at response {} of {} (clean outcome {})",
            sys_idx,
            system(sys_idx).2,
            eng_name,
            kind,
            pos,
            clean.responses,
            clean.outcome
        );
        if let Some(p) = panic {
            return Err(Failure::new(
                format!("solver-fault/{}/{}", kind, p.class()),
                format!("panic {}:{} {}\n{}", p.file, p.line, p.msg, what),
            ));
        }
        match outcome.as_str() {
            "start-failed" => return Err(Failure::new("harness/solver-start", err.unwrap_or_default())),
            "error" | "unknown" => {
                // error replies must carry the solver's message verbatim
                if let (true, Some(m)) = (kind.starts_with("err"), err.as_ref()) {
                    let expect = match kind {
                        "err1" => "x".to_string(),
                        "err" => "line 7 column 12: unknown constant foo@1 (declared here)".to_string(),
                        "errsemi" => "resource limit exceeded; giving up |x;y| (retry later)".to_string(),
                        _ => (0..4096).map(|i| (b'a' + (i % 26) as u8) as char).collect(),
                    };
                    if outcome == "error" && !m.contains(&expect) {
                        return Err(Failure::new(
                            format!("solver-fault/{}/message-mangled", kind),
                            format!("returned error `{}` does not contain the solver's message `{}`\n{}", m.chars().take(300).collect::<String>(), expect.chars().take(80).collect::<String>(), what),
                        ));
                    }
                }
            }
            other if kind == "unknown" && other.starts_with("ok:") && other.contains("Unknown") => {
                // the session handed the solver's `unknown` to its caller as an Unknown response:
                // that is the "(or an Unknown verdict)" the property allows
                rec.label("raw-session:unknown-passed-through");
            }
            other => {
                // a verdict (or a completed raw session) although an answer was corrupted
                return Err(Failure::new(
                    format!("solver-fault/{}/verdict-despite-fault/{}", kind, if other.starts_with("ok:") { "session-ok" } else { other }),
                    format!("the run returned `{}`\n{}", other, what),
                ));
            }
        }
        if pos > 1 && kind != "exit" {
            rec.nontrivial(hash_bytes(format!("{}|{}|{}|{}", sys_idx, eng, pos, kind).as_bytes()));
        }
        if rec.want_sample() {
            rec.sample(format!("{} -> {}{}", what, outcome, err.map(|e| format!(": {}", e.chars().take(120).collect::<String>())).unwrap_or_default()));
        }
        Ok(())
    }
}
