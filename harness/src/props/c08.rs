//! C08 — the btor2 reader gives every construct its btor2 meaning; ill-sorted lines are never accepted.

use crate::btorgen::{self, BSort, BtorFile, LineKind};
use crate::engine::*;
use crate::refeval::{self, Env};
use crate::refval::{Arr, Val};
use crate::tape::{SplitMix, Tape, hash_bytes};
use patronus::btor2;
use patronus::expr::{ArrayType, Context, ExprRef, Type, TypeCheck};
use patronus::system::TransitionSystem;
use std::collections::HashMap;

pub struct C08;

pub fn type_of(s: BSort) -> Type {
    match s {
        BSort::Bv(w) => Type::BV(w),
        BSort::Arr(iw, dw) => Type::Array(ArrayType { index_width: iw, data_width: dw }),
    }
}

pub fn parse(text: &str) -> Result<Option<(Context, TransitionSystem)>, PanicInfo> {
    guard(|| {
        let mut ctx = Context::default();
        btor2::parse_str(&mut ctx, text, Some("pv")).map(|s| (ctx, s))
    })
}

/// silence the reader's error reports on stderr (it prints diagnostics for rejected files)
pub fn parse_quiet(text: &str) -> Result<Option<(Context, TransitionSystem)>, PanicInfo> {
    let _g = StderrSilencer::new();
    parse(text)
}

/// Redirects fd 2 to /dev/null for the lifetime of the guard (process wide; used only around the
/// reader, whose diagnostics would otherwise flood the log; all workers silence it alike).
pub struct StderrSilencer;
impl StderrSilencer {
    pub fn new() -> Self {
        silence_stderr_once();
        StderrSilencer
    }
}

static SILENCE: std::sync::Once = std::sync::Once::new();
pub fn silence_stderr_once() {
    SILENCE.call_once(|| {
        if std::env::var("PV_KEEP_STDERR").is_ok() {
            return;
        }
        unsafe {
            unsafe extern "C" {
                fn open(path: *const i8, flags: i32, ...) -> i32;
                fn dup2(a: i32, b: i32) -> i32;
            }
            let fd = open(c"/dev/null".as_ptr(), 1);
            if fd >= 0 {
                dup2(fd, 2);
            }
        }
    });
}

fn sym_values(f: &BtorFile, rng: &mut SplitMix) -> HashMap<usize, Val> {
    let mut m = HashMap::new();
    for i in f.symbols() {
        m.insert(i, btorgen::random_value(rng, f.lines[i].sort.unwrap()));
    }
    m
}

/// minimal prefix localisation: first operator line whose value (observed through an added
/// `output` line) differs from btorgen's, or whose prefix is rejected / panics
fn localise(f: &BtorFile, sym_vals: &HashMap<usize, Val>) -> Option<(String, String)> {
    let vals = f.eval_all(sym_vals);
    for i in 0..f.lines.len() {
        let LineKind::Op { op, args, .. } = &f.lines[i].kind else { continue };
        let BSort::Bv(_) = f.lines[i].sort.unwrap() else { continue };
        let mut g = BtorFile { lines: f.lines[..=i].to_vec() };
        // drop init/next/bad/... lines of the prefix: keep sorts, symbols and operators only
        for l in g.lines.iter_mut() {
            if !matches!(l.kind, LineKind::Sort(_) | LineKind::Input | LineKind::State | LineKind::Op { .. }) {
                l.kind = LineKind::Comment("removed".into()); // keeps line indices stable
            }
        }
        let idx = g.lines.len() - 1;
        g.lines.push(btorgen::Line {
            id: f.lines[i].id + 1_000_000,
            kind: LineKind::Output((idx, false)),
            sort: None,
            sort_line: None,
            name: None,
        });
        let neg = args.iter().any(|a| a.1);
        let mut wmax = match f.lines[i].sort.unwrap() {
            BSort::Bv(w) => w,
            BSort::Arr(a, b) => a.max(b),
        };
        for a in args.iter() {
            wmax = wmax.max(match f.lines[a.0].sort.unwrap() {
                BSort::Bv(w) => w,
                BSort::Arr(a, b) => a.max(b),
            });
        }
        let tag = format!("{}/{}{}", op, crate::props::c06::wclass(wmax), if neg { "/neg-operand" } else { "" });
        match parse_quiet(&g.render()) {
            Err(p) => return Some((format!("panic/{}/{}", tag, p.class()), format!("line `{}` panics: {}", f.render_line(i), p.msg))),
            Ok(None) => return Some((format!("rejected/{}", tag), format!("line `{}` is rejected", f.render_line(i)))),
            Ok(Some((ctx, sys))) => {
                let syms: Vec<usize> = g.symbols();
                // all states here have neither init nor next => all are inputs, inputs first
                let mut order: Vec<usize> =
                    syms.iter().copied().filter(|s| matches!(g.lines[*s].kind, LineKind::Input)).collect();
                order.extend(syms.iter().copied().filter(|s| matches!(g.lines[*s].kind, LineKind::State)));
                if order.len() != sys.inputs.len() {
                    return Some((format!("symbol-count/{}", tag), "prefix has a different number of inputs".into()));
                }
                let mut env = Env::default();
                for (k, s) in order.iter().enumerate() {
                    // map by position in the *original* file (prefix indices equal original indices
                    // for retained lines only by id): look up through ids
                    let orig = f.lines.iter().position(|l| l.id == g.lines[*s].id).unwrap();
                    env.insert(sys.inputs[k], sym_vals[&orig].clone());
                }
                let got = refeval::eval(&ctx, &env, sys.outputs[0].expr).ok()?;
                let exp = &vals[&i];
                if !got.sem_eq(exp) {
                    let a: Vec<String> = args
                        .iter()
                        .map(|r| format!("{}{}", if r.1 { "-" } else { "" }, vals[&r.0].short()))
                        .collect();
                    return Some((
                        format!("wrong-value/{}", tag),
                        format!(
                            "line `{}` with operands [{}] means {} but the parsed expression {} gives {}",
                            f.render_line(i),
                            a.join(", "),
                            exp.short(),
                            refeval::show(&ctx, sys.outputs[0].expr),
                            got.short()
                        ),
                    ));
                }
            }
        }
    }
    None
}

/// Compare the parsed system with the file's own semantics. Used by C08 (and by C18 for accepted files).
pub fn compare_system(
    f: &BtorFile,
    ctx: &Context,
    sys: &TransitionSystem,
    rng: &mut SplitMix,
    n_samples: usize,
) -> Result<(), (String, String, HashMap<usize, Val>)> {
    let none = HashMap::new();
    let exp_inputs = f.expected_inputs();
    let exp_states = f.expected_states();
    if sys.inputs.len() != exp_inputs.len() || sys.states.len() != exp_states.len() {
        return Err((
            "symbol-count".into(),
            format!(
                "file declares {} inputs (+demoted states) and {} states with init/next; parsed system has {} and {}",
                exp_inputs.len(),
                exp_states.len(),
                sys.inputs.len(),
                sys.states.len()
            ),
            none,
        ));
    }
    for (k, i) in exp_inputs.iter().enumerate() {
        let want = type_of(f.lines[*i].sort.unwrap());
        if sys.inputs[k].get_type(ctx) != want {
            return Err(("symbol-sort".into(), format!("input {} has type {:?}, declared {:?}", k, sys.inputs[k].get_type(ctx), want), none));
        }
    }
    for (k, i) in exp_states.iter().enumerate() {
        let want = type_of(f.lines[*i].sort.unwrap());
        if sys.states[k].symbol.get_type(ctx) != want {
            return Err(("symbol-sort".into(), format!("state {} has type {:?}, declared {:?}", k, sys.states[k].symbol.get_type(ctx), want), none));
        }
        if sys.states[k].init.is_some() != f.init_of(*i).is_some() || sys.states[k].next.is_some() != f.next_of(*i).is_some() {
            return Err(("init-next-presence".into(), format!("state {}: init/next presence differs from the file", k), none));
        }
    }
    let outs: Vec<(usize, bool)> = f.lines.iter().filter_map(|l| if let LineKind::Output(e) = l.kind { Some(e) } else { None }).collect();
    let bads: Vec<(usize, bool)> = f.lines.iter().filter_map(|l| if let LineKind::Bad(e) = l.kind { Some(e) } else { None }).collect();
    let cons: Vec<(usize, bool)> = f.lines.iter().filter_map(|l| if let LineKind::Constraint(e) = l.kind { Some(e) } else { None }).collect();
    if outs.len() != sys.outputs.len() || bads.len() != sys.bad_states.len() || cons.len() != sys.constraints.len() {
        return Err(("root-count".into(), "number of outputs/bads/constraints differs".into(), none));
    }
    for _ in 0..n_samples {
        let sv = sym_values(f, rng);
        let vals = f.eval_all(&sv);
        let mut env = Env::default();
        for (k, i) in exp_inputs.iter().enumerate() {
            env.insert(sys.inputs[k], sv[i].clone());
        }
        for (k, i) in exp_states.iter().enumerate() {
            env.insert(sys.states[k].symbol, sv[i].clone());
        }
        let mut cmp = |what: String, e: ExprRef, r: (usize, bool), lift: Option<u32>| -> Result<(), (String, String, HashMap<usize, Val>)> {
            let mut exp = f.value_of_ref(r, &vals);
            if let (Some(iw), Val::Bv(b)) = (lift, &exp) {
                exp = Val::Arr(Arr::constant(iw, b));
            }
            let got = refeval::eval(ctx, &env, e).map_err(|m| ("undeclared-symbol".to_string(), format!("{}: {}", what, m), sv.clone()))?;
            if !got.sem_eq(&exp) {
                return Err((
                    "wrong-value".into(),
                    format!("{} : file means {} but parsed expression {} gives {}", what, exp.short(), refeval::show(ctx, e), got.short()),
                    sv.clone(),
                ));
            }
            Ok(())
        };
        for (k, r) in outs.iter().enumerate() {
            cmp(format!("output {}", k), sys.outputs[k].expr, *r, None)?;
        }
        for (k, r) in bads.iter().enumerate() {
            cmp(format!("bad {}", k), sys.bad_states[k], *r, None)?;
        }
        for (k, r) in cons.iter().enumerate() {
            cmp(format!("constraint {}", k), sys.constraints[k], *r, None)?;
        }
        for (k, i) in exp_states.iter().enumerate() {
            if let (Some(e), Some(r)) = (sys.states[k].init, f.init_of(*i)) {
                let lift = match (f.lines[*i].sort.unwrap(), f.lines[r.0].sort.unwrap()) {
                    (BSort::Arr(iw, _), BSort::Bv(_)) => Some(iw),
                    _ => None,
                };
                cmp(format!("init of state {}", k), e, r, lift)?;
            }
            if let (Some(e), Some(r)) = (sys.states[k].next, f.next_of(*i)) {
                cmp(format!("next of state {}", k), e, r, None)?;
            }
        }
    }
    Ok(())
}

impl Prop for C08 {
    fn id(&self) -> &'static str {
        "C08"
    }
    fn fuzz_target(&self) -> Option<&'static str> {
        Some("tape")
    }
    fn rule(&self) -> String {
        "grammar-generated btor2 text (5-60 lines; all supported operators incl. swapped-operand comparisons, derived operators nand/nor/xnor/neq/iff/red*, shifts, div/rem, concat/read/ite/write, constants in base 2/10/16 incl. negative constd, zero/one/ones, negated operand references on any bit-vector operand, sorts declared in any order and duplicated, states with/without init/next, bit-vector-to-array init, named and unnamed lines) with its own line-by-line semantics; parsed system's output/bad/constraint/init/next expressions evaluated by the reference evaluator (symbols matched by position) must equal the file's own value under 8 valuations; inputs/states have declared sorts; ~15% ill-sorted variants (one declared sort or one operand swapped) must not yield a system. Non-trivial: file with >= 1 negated operand reference and >= 1 of swapped-operand comparison / derived operator / base-10 or base-16 constant / array read or write; distinct by hash of the text.".into()
    }
    fn assumptions(&self) -> Vec<String> {
        vec!["btorgen's operator semantics follow the btor2 paper / SMT-LIB (div by zero = all ones, rem by zero = dividend)".into()]
    }
    fn budget(&self, tier: Tier) -> Budget {
        match tier {
            Tier::Quick => Budget { cases: 400_000, max_tape: 512 },
            Tier::Thorough => Budget { cases: 6_000_000, max_tape: 1024 },
        }
    }
    fn run_tape(&self, tape: &[u8], tier: Tier, rec: &mut Recorder) -> Result<(), Failure> {
        silence_stderr_once();
        let mut t = Tape::new(tape);
        let ill = t.chance(40);
        let wide = t.chance(90);
        let f = btorgen::gen_file(&mut t, wide, if tier == Tier::Quick { 24 } else { 50 });
        if let Err(e) = btorgen::type_check_file(&f) {
            return Err(Failure::new("harness/btorgen", format!("generated file is ill-sorted: {}\n{}", e, f.render())));
        }
        rec.eval();
        let mut rng = SplitMix(hash_bytes(tape));
        if ill {
            let Some((g, what)) = btorgen::ill_sorted_variant(&f, &mut t) else {
                rec.exclude("no ill-sorted edit possible");
                return Ok(());
            };
            let text = g.render();
            rec.label("ill-sorted-variant");
            return match parse_quiet(&text) {
                Ok(None) => {
                    rec.nontrivial(hash_bytes(text.as_bytes()));
                    Ok(())
                }
                Err(_) => {
                    // a crash is not an acceptance; clean rejection is C18's business
                    rec.label("ill-sorted-variant-panicked(tallied for C18)");
                    Ok(())
                }
                Ok(Some(_)) => Err(Failure::new(
                    "btor2-read/accepted-ill-sorted",
                    format!("{} but the file was accepted:\n{}", what, text),
                )),
            };
        }
        let text = f.render();
        for l in f.lines.iter() {
            if let LineKind::Op { op, .. } = &l.kind {
                rec.label(&format!("op:{}", op));
            }
        }
        let parsed = parse_quiet(&text);
        let (ctx, sys) = match parsed {
            Err(p) => {
                let sv = sym_values(&f, &mut rng);
                let (tail, detail) = localise(&f, &sv)
                    .unwrap_or((format!("panic/whole-file/{}", p.class()), p.msg.clone()));
                return Err(Failure::new(format!("btor2-read/{}", tail), format!("{}\n{}", detail, text)));
            }
            Ok(None) => {
                let sv = sym_values(&f, &mut rng);
                let (tail, detail) =
                    localise(&f, &sv).unwrap_or(("rejected/whole-file".into(), "well-formed file rejected".into()));
                return Err(Failure::new(format!("btor2-read/{}", tail), format!("{}\n{}", detail, text)));
            }
            Ok(Some(x)) => x,
        };
        if let Err((kind, msg, sv)) = compare_system(&f, &ctx, &sys, &mut rng, 8) {
            let (tail, detail) = if sv.is_empty() { None } else { localise(&f, &sv) }
                .unwrap_or((format!("{}/system-level", kind), msg.clone()));
            return Err(Failure::new(format!("btor2-read/{}", tail), format!("{}\n{}\n{}", detail, msg, text)));
        }
        let has_neg = f.lines.iter().any(|l| matches!(&l.kind, LineKind::Op { args, .. } if args.iter().any(|a| a.1)));
        let special = f.lines.iter().any(|l| match &l.kind {
            LineKind::Op { op, .. } => matches!(
                op.as_str(),
                "slt" | "ult" | "slte" | "ulte" | "nand" | "nor" | "xnor" | "neq" | "iff" | "redand" | "redor" | "redxor"
                    | "constd" | "consth" | "read" | "write"
            ),
            _ => false,
        });
        if has_neg && special {
            rec.nontrivial(hash_bytes(text.as_bytes()));
            if rec.want_sample() && text.len() < 700 {
                rec.sample(text.replace('\n', " | "));
            }
        }
        Ok(())
    }
}
