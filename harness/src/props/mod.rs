use crate::engine::Prop;
use std::sync::Arc;

pub mod c01;
pub mod c02;
pub mod c03;
pub mod c04;
pub mod c05;
pub mod c06;
pub mod c07;
pub mod c08;
pub mod c09;
pub mod c10;
pub mod c11;
pub mod c12;
pub mod c13;
pub mod c14;
pub mod c15;
pub mod c16;
pub mod c17;
pub mod c18;
pub mod c19;
pub mod c20;

pub fn all() -> Vec<Arc<dyn Prop>> {
    vec![
        Arc::new(c01::C01),
        Arc::new(c02::C02),
        Arc::new(c03::C03),
        Arc::new(c04::C04),
        Arc::new(c05::C05),
        Arc::new(c06::C06),
        Arc::new(c07::C07),
        Arc::new(c08::C08),
        Arc::new(c09::C09),
        Arc::new(c10::C10),
        Arc::new(c11::C11),
        Arc::new(c12::C12),
        Arc::new(c13::C13),
        Arc::new(c14::C14),
        Arc::new(c15::C15),
        Arc::new(c16::C16),
        Arc::new(c17::C17),
        Arc::new(c18::C18),
        Arc::new(c19::C19),
        Arc::new(c20::C20),
    ]
}
