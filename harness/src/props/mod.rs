use crate::engine::Prop;
use std::sync::Arc;

pub mod c06;

pub fn all() -> Vec<Arc<dyn Prop>> {
    vec![Arc::new(c06::C06)]
}
