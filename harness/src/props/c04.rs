//! C04 — the unrolled SMT encoding is well-formed (declared/defined exactly once before use,
//! well-sorted) and faithful to the system (per-step symbols evaluate to the signals' values).

use crate::engine::*;
use crate::gen_sys::{SysCfg, gen_system, show_system};
use crate::props::c05::sort_of_type;
use crate::refeval;
use crate::refsim::RefSim;
use crate::refval::Val;
use crate::smtref::{self, CmdKind, Profile, SVal, Scopes, ValEnv};
use crate::sysutil::random_val;
use crate::tape::{SplitMix, Tape, hash_bytes};
use patronus::expr::{Context, ExprRef, TypeCheck};
use patronus::mc::{TransitionSystemEncoding, UnrollSmtEncoding};
use patronus::smt::{CheckSatResponse, Logic, SmtCommand, SolverContext, SolverMetaData, serialize_cmd};
use patronus::system::TransitionSystem;

pub struct C04;

/// In-process recording solver: the text is produced by the real serialize_cmd.
#[derive(Default)]
pub struct Recorder2 {
    pub script: Vec<String>,
}

impl Recorder2 {
    fn push(&mut self, ctx: Option<&Context>, cmd: &SmtCommand) {
        let mut out = Vec::new();
        serialize_cmd(&mut out, ctx, cmd).expect("write");
        self.script.push(String::from_utf8_lossy(&out).trim().to_string());
    }
}

impl SolverMetaData for Recorder2 {
    fn name(&self) -> &str {
        "recorder"
    }
    fn supports_check_assuming(&self) -> bool {
        true
    }
    fn supports_uf(&self) -> bool {
        false
    }
    fn supports_const_array(&self) -> bool {
        true
    }
    fn supports_get_unsat_assumptions(&self) -> bool {
        true
    }
}

impl SolverContext for Recorder2 {
    fn restart(&mut self) -> patronus::smt::Result<()> {
        self.script.clear();
        Ok(())
    }
    fn set_logic(&mut self, option: Logic) -> patronus::smt::Result<()> {
        self.push(None, &SmtCommand::SetLogic(option));
        Ok(())
    }
    fn assert(&mut self, ctx: &Context, e: ExprRef) -> patronus::smt::Result<()> {
        self.push(Some(ctx), &SmtCommand::Assert(e));
        Ok(())
    }
    fn declare_const(&mut self, ctx: &Context, symbol: ExprRef) -> patronus::smt::Result<()> {
        self.push(Some(ctx), &SmtCommand::DeclareConst(symbol));
        Ok(())
    }
    fn define_const(&mut self, ctx: &Context, symbol: ExprRef, expr: ExprRef) -> patronus::smt::Result<()> {
        self.push(Some(ctx), &SmtCommand::DefineConst(symbol, expr));
        Ok(())
    }
    fn check_sat_assuming(
        &mut self,
        ctx: &Context,
        props: impl IntoIterator<Item = ExprRef>,
    ) -> patronus::smt::Result<CheckSatResponse> {
        let props: Vec<ExprRef> = props.into_iter().collect();
        self.push(Some(ctx), &SmtCommand::CheckSatAssuming(props));
        Ok(CheckSatResponse::Unsat)
    }
    fn check_sat(&mut self) -> patronus::smt::Result<CheckSatResponse> {
        self.push(None, &SmtCommand::CheckSat);
        Ok(CheckSatResponse::Unsat)
    }
    fn push(&mut self) -> patronus::smt::Result<()> {
        Recorder2::push(self, None, &SmtCommand::Push(1));
        Ok(())
    }
    fn pop(&mut self) -> patronus::smt::Result<()> {
        Recorder2::push(self, None, &SmtCommand::Pop(1));
        Ok(())
    }
    fn get_value(&mut self, _ctx: &mut Context, e: ExprRef) -> patronus::smt::Result<ExprRef> {
        Ok(e)
    }
    fn get_unsat_assumptions(&mut self, _ctx: &mut Context) -> patronus::smt::Result<Vec<ExprRef>> {
        Ok(vec![])
    }
}

/// names the encoder may use for a system symbol: `name@k` or `name` (constant states)
fn split_step(name: &str) -> (String, Option<u64>) {
    match name.rsplit_once('@') {
        Some((base, k)) if k.chars().all(|c| c.is_ascii_digit()) && !k.is_empty() => {
            (base.to_string(), k.parse().ok())
        }
        _ => (name.to_string(), None),
    }
}

/// strict script check; returns scopes and the declare-const names in order
pub fn check_script(script: &[String]) -> Result<(Scopes, Vec<String>), (String, String)> {
    let mut sc = Scopes::new();
    let p = Profile::default();
    let mut declared = vec![];
    for line in script {
        let cmd = smtref::read_one(line).map_err(|e| ("lexical".to_string(), format!("`{}`: {}", line, e)))?;
        match smtref::check_command(&cmd, &mut sc, &p) {
            Ok(CmdKind::DeclareConst(n)) => declared.push(n),
            Ok(_) => {}
            Err(e) => {
                let kind = if e.contains("reference-limit") {
                    "HARNESS-reference-limit"
                } else if e.contains("already declared or defined") {
                    "defined-twice"
                } else if e.contains("unknown constant") {
                    "used-before-definition"
                } else if e.contains("reserved") {
                    "reserved-name"
                } else {
                    "ill-sorted"
                };
                return Err((kind.to_string(), format!("`{}`: {}", line, e)));
            }
        }
    }
    Ok((sc, declared))
}

pub struct Execution {
    /// state values per step
    pub states: Vec<Vec<Val>>,
    /// input values per step
    pub inputs: Vec<Vec<Val>>,
}

/// a concrete execution from `start` over `steps+1` steps; at start > 0 the state is arbitrary
pub fn random_execution(sim: &RefSim, rng: &mut SplitMix, start: u64, depth: u64) -> Result<Execution, String> {
    let free: Vec<Val> = sim.state_types.iter().map(|t| random_val(rng, *t)).collect();
    let mut first: Option<Vec<Val>> = Some(sim.input_types.iter().map(|t| random_val(rng, *t)).collect());
    let mut s = if start == 0 { sim.initial(&free, first.as_ref().unwrap())? } else { free };
    let mut states = vec![];
    let mut inputs = vec![];
    for _ in 0..=depth {
        let i: Vec<Val> = match first.take() {
            Some(f) => f,
            None => sim.input_types.iter().map(|t| random_val(rng, *t)).collect(),
        };
        let nf: Vec<Val> = sim.state_types.iter().map(|t| random_val(rng, *t)).collect();
        let n = sim.next(&s, &i, &nf)?;
        states.push(s);
        inputs.push(i);
        s = n;
    }
    Ok(Execution { states, inputs })
}

/// bind every declare-const of the script to the execution
pub fn bind_declared(
    ctx: &Context,
    sys: &TransitionSystem,
    declared: &[String],
    ex: &Execution,
    start: u64,
) -> Result<ValEnv, (String, String)> {
    let mut env = ValEnv::new();
    for name in declared {
        if name.starts_with("__pdr_act_") {
            continue; // activation literals are bound by the caller
        }
        let (base, step) = split_step(name);
        let find = |n: &str| -> Option<(bool, usize)> {
            if let Some(k) = sys.states.iter().position(|s| ctx.get_symbol_name(s.symbol) == Some(n)) {
                return Some((true, k));
            }
            sys.inputs.iter().position(|i| ctx.get_symbol_name(*i) == Some(n)).map(|k| (false, k))
        };
        let (who, step) = match (find(&base), step) {
            (Some(w), Some(k)) => (w, k),
            _ => match find(name) {
                // constant state declared under its plain name
                Some((true, k)) if sys.states[k].is_const() => ((true, k), start),
                _ => {
                    return Err((
                        "unexpected-declaration".into(),
                        format!("`{}` is declared free but is neither an input nor a state at some step", name),
                    ));
                }
            },
        };
        if step < start || (step - start) as usize >= ex.states.len() {
            return Err(("unexpected-declaration".into(), format!("`{}`: step out of range", name)));
        }
        let idx = (step - start) as usize;
        let v = if who.0 { &ex.states[idx][who.1] } else { &ex.inputs[idx][who.1] };
        env.insert(name.clone(), SVal::from_val(v));
    }
    Ok(env)
}

/// The recorded script, the execution as equalities on the declared constants, and a `get-value` of every
/// Bool / bit-vector definition go to z3 and cvc5: both must accept the script, answer `sat` and
/// return the values the reference front end computed (guards smtref; disagreement = exit 2).
fn second_opinion(
    ctx: &Context,
    script: &[String],
    sc: &Scopes,
    bound: &smtref::ValEnv,
    all: &smtref::ValEnv,
    rec: &mut Recorder,
) -> Result<(), Failure> {
    if script.iter().any(|l| !l.is_ascii() || l.chars().any(|c| c.is_control())) {
        rec.exclude("second opinion: non-ASCII symbol name");
        return Ok(());
    }
    let mut text = String::from(crate::second::prelude());
    for l in script {
        if l.starts_with("(set-logic") || l.starts_with("(set-option") {
            continue;
        }
        text.push_str(l);
        text.push('\n');
    }
    let mut names: Vec<&String> = bound.keys().collect();
    names.sort();
    for n in names {
        text.push_str(&format!("(assert (= {} {}))\n", smtref::print_symbol(n), smtref::print_value(&bound[n], 0)));
    }
    text.push_str("(check-sat)\n");
    let mut asked: Vec<&String> = all.iter().filter(|(k, v)| matches!(v, smtref::SVal::B(..)) && sc.get(k).is_some()).map(|(k, _)| k).collect();
    asked.sort();
    asked.truncate(40);
    if !asked.is_empty() {
        text.push_str(&format!("(get-value ({}))\n", asked.iter().map(|n| smtref::print_symbol(n)).collect::<Vec<_>>().join(" ")));
    }
    let non_literal_const_array = script.iter().any(|l| {
        l.match_indices("(as const").any(|(p, _)| {
            // `((as const <sort>) <element>)`: the element follows the closing parenthesis of `(as const ...)`
            let rest = &l[p..];
            let mut depth = 0i32;
            let mut end = 0;
            for (i, ch) in rest.char_indices() {
                if ch == '(' { depth += 1 } else if ch == ')' { depth -= 1; if depth == 0 { end = i; break } }
            }
            !rest[end + 1..].trim_start().starts_with('#')
        })
    });
    let _ = ctx;
    let arrays_in_script = text.contains("(Array ");
    let ops = crate::second::ask(&text).map_err(|m| Failure::new("harness/second-opinion/spawn", m))?;
    for o in ops {
        if o.timed_out {
            rec.exclude("second opinion: solver hit its time limit");
            continue;
        }
        if o.solver == "cvc5" && non_literal_const_array {
            rec.exclude("second opinion: cvc5 wants a literal under `as const`");
            continue;
        }
        rec.label(&format!("second-opinion:{}", o.solver));
        let bad = |why: &str| {
            Failure::new(
                format!("harness/second-opinion/{}/{}", o.solver, why),
                format!("{} answered `{}` to\n{}", o.solver, o.output.trim(), text),
            )
        };
        if !o.accepted {
            return Err(bad("rejects-what-smtref-accepts"));
        }
        if o.replies.first().and_then(|r| r.sym()) != Some("sat") {
            return Err(bad("not-sat"));
        }
        if asked.is_empty() {
            continue;
        }
        // z3's model evaluator compares arrays by their printed normal form: two arrays over a finite index
        // sort (Bool) that agree everywhere but have different defaults evaluate as unequal. With arrays
        // in the script only acceptance and `sat` are compared.
        if arrays_in_script {
            rec.label("second-opinion:acceptance-only(arrays)");
            continue;
        }
        let Some(pairs) = o.replies.get(1).and_then(|r| r.list()) else { return Err(bad("reply-shape")) };
        if pairs.len() != asked.len() {
            return Err(bad("reply-shape"));
        }
        for (n, p) in asked.iter().zip(pairs.iter()) {
            let Some(p) = p.list().filter(|p| p.len() == 2) else { return Err(bad("reply-shape")) };
            let got = smtref::eval(&p[1], &Scopes::new(), &smtref::ValEnv::new(), &mut vec![]).map_err(|_| bad("reply-value"))?;
            if !smtref::sval_eq(&got, &all[*n]) {
                return Err(Failure::new(
                    format!("harness/second-opinion/{}/value-differs-from-reference", o.solver),
                    format!("{}: {} says {}, smtref {}\n{}", n, o.solver, smtref::print_value(&got, 0), smtref::print_value(&all[*n], 0), text),
                ));
            }
        }
    }
    Ok(())
}

impl Prop for C04 {
    fn id(&self) -> &'static str {
        "C04"
    }
    fn fuzz_target(&self) -> Option<&'static str> {
        Some("tape")
    }
    fn rule(&self) -> String {
        "generated transition systems x unrolling depth 0-5 x entry point (init_at(0) + unrolls; init_at(s>0) + unrolls as PDR does), driven through the public UnrollSmtEncoding / TransitionSystemEncoding API (in 22% of the cases on an encoder object that has already served an earlier, overlapping init_at + unrolling into another solver) with an in-process recording SolverContext (text from the real serialize_cmd). (a) strict script check by the independent SMT-LIB front end: every symbol declared or defined exactly once before use, every term well-sorted; (b) faithfulness: a concrete execution from the reference simulator (random free initial values, inputs, next-less states; arbitrary state at the entry step when s>0) is bound to exactly the declare-const symbols, every define-fun is evaluated, and for every state, input, constraint and bad state (and, when the encoder is created with include_outputs, every output) e and every step j the symbol returned by get_signal_at(e, j) must have the value of e at step j (4 executions per script). Non-trivial: system in which a non-leaf signal is used by two of {init, next, other} and depth >= 1; distinct by hash of the script.".into()
    }
    fn budget(&self, tier: Tier) -> Budget {
        match tier {
            Tier::Quick => Budget { cases: 200_000, max_tape: 640 },
            Tier::Thorough => Budget { cases: 3_000_000, max_tape: 1024 },
        }
    }
    fn run_tape(&self, tape: &[u8], _tier: Tier, rec: &mut Recorder) -> Result<(), Failure> {
        let mut t = Tape::new(tape);
        let start: u64 = if t.chance(90) { t.range(1, 3) as u64 } else { 0 };
        let depth = t.below(6) as u64;
        let cfg = SysCfg { max_state_bits: 12, max_input_bits: 6, names_and_aliases: true, ..SysCfg::default() };
        let mut case = gen_system(&mut t, &cfg);
        let sys = case.sys.clone();
        let ctx = &mut case.ctx;
        rec.eval();
        let text = show_system(ctx, &sys);
        let mut rng = SplitMix(hash_bytes(tape));
        let mut solver = Recorder2::default();
        // history on one encoder object: sometimes the encoder has already served an earlier
        // (overlapping) unrolling into another solver before the recorded one; init_at re-initialises it
        let reuse: Option<(u64, u64)> = if t.chance(56) { Some((t.below(3) as u64, t.below(4) as u64)) } else { None };
        // the encoder can also be asked to define the outputs as signals
        let include_outputs = t.chance(64);
        let enc = guard(|| {
            let mut enc = UnrollSmtEncoding::new(ctx, &sys, include_outputs);
            if let Some((start0, depth0)) = reuse {
                let mut scratch = Recorder2::default();
                enc.define_header(&mut scratch).unwrap();
                enc.init_at(ctx, &mut scratch, start0).unwrap();
                for _ in 0..depth0 {
                    enc.unroll(ctx, &mut scratch).unwrap();
                }
            }
            enc.define_header(&mut solver).unwrap();
            enc.init_at(ctx, &mut solver, start).unwrap();
            for _ in 0..depth {
                enc.unroll(ctx, &mut solver).unwrap();
            }
            enc
        });
        let entry = if start == 0 { "from-init" } else { "from-symbolic-state" };
        let enc = match enc {
            Ok(e) => e,
            Err(p) => {
                return Err(Failure::new(
                    format!("encoding/{}/{}", entry, p.class()),
                    format!("panic {}:{} {}\n{}", p.file, p.line, p.msg, text),
                ));
            }
        };
        rec.label(&format!("entry:{}", entry));
        if reuse.is_some() {
            rec.label("encoder-reused-after-an-earlier-unrolling");
        }
        rec.label(&format!("depth:{}", depth));
        let script = solver.script.clone();
        // (a)
        let (sc, declared) = match check_script(&script) {
            Ok(x) => x,
            Err((kind, msg)) if kind.starts_with("HARNESS") => {
                return Err(Failure::new("harness/reference-limit", format!("{}\nscript:\n{}", msg, script.join("\n"))));
            }
            Err((kind, msg)) => {
                return Err(Failure::new(
                    format!("encoding/{}/{}", entry, kind),
                    format!("{}\nsystem: {}\nscript:\n{}", msg, text, script.join("\n")),
                ));
            }
        };
        // (b)
        let sim = RefSim::new(ctx, &sys);
        let mut signals: Vec<(String, ExprRef)> = vec![];
        for s in sys.states.iter() {
            signals.push(("state".into(), s.symbol));
        }
        for i in sys.inputs.iter() {
            signals.push(("input".into(), *i));
        }
        for c in sys.constraints.iter() {
            signals.push(("constraint".into(), *c));
        }
        for b in sys.bad_states.iter() {
            signals.push(("bad".into(), *b));
        }
        if include_outputs {
            rec.label("outputs-included");
            for o in sys.outputs.iter() {
                // a literal has no per-step symbol (get_signal_at only passes true/false through)
                if !ctx[o.expr].is_bv_lit() {
                    signals.push(("output".into(), o.expr));
                }
            }
        }
        let ask_real_solvers = !rec.frozen && hash_bytes(tape) % 300 == 5 && crate::second::available();
        for round in 0..4 {
            let ex = random_execution(&sim, &mut rng, start, depth).map_err(|m| Failure::new("harness/c04", m))?;
            let env = match bind_declared(ctx, &sys, &declared, &ex, start) {
                Ok(e) => e,
                Err((kind, msg)) => {
                    return Err(Failure::new(
                        format!("encoding/{}/{}", entry, kind),
                        format!("{}\nsystem: {}\nscript:\n{}", msg, text, script.join("\n")),
                    ));
                }
            };
            let bound = env.clone();
            let mut env = env;
            if let Err(m) = smtref::eval_definitions(&sc, &mut env) {
                return Err(Failure::new(
                    format!("encoding/{}/definition-not-evaluable", entry),
                    format!("{}\nsystem: {}\nscript:\n{}", m, text, script.join("\n")),
                ));
            }
            if ask_real_solvers && round == 0 {
                second_opinion(ctx, &script, &sc, &bound, &env, rec)?;
            }
            for j in 0..=depth {
                let step = start + j;
                for (role, e) in signals.iter() {
                    let sym = match guard(|| enc.get_signal_at(ctx, *e, step)) {
                        Ok(s) => s,
                        Err(p) => {
                            return Err(Failure::new(
                                format!("encoding/{}/get_signal_at/{}", entry, p.class()),
                                format!("{} {} at step {}: {}\n{}", role, refeval::show(ctx, *e), step, p.msg, text),
                            ));
                        }
                    };
                    let exp = sim
                        .eval(&ex.states[j as usize], &ex.inputs[j as usize], *e)
                        .map_err(|m| Failure::new("harness/c04", m))?;
                    let got: Val = if let Some(name) = ctx.get_symbol_name(sym) {
                        let term = smtref::SExpr::Atom(smtref::Atom::Symbol(name.to_string()));
                        match smtref::eval(&term, &sc, &env, &mut vec![]) {
                            Ok(v) => {
                                let want = sort_of_type(e.get_type(ctx));
                                if *v.sort() != want {
                                    return Err(Failure::new(
                                        format!("encoding/{}/signal-sort/{}", entry, role),
                                        format!("{} has sort {:?}, signal type {:?}\n{}", name, v.sort(), want, text),
                                    ));
                                }
                                v.to_val()
                            }
                            Err(m) => {
                                return Err(Failure::new(
                                    format!("encoding/{}/signal-undefined/{}", entry, role),
                                    format!(
                                        "get_signal_at({}, {}) = {} which the script does not define: {}\nsystem: {}\nscript:\n{}",
                                        refeval::show(ctx, *e), step, name, m, text, script.join("\n")
                                    ),
                                ));
                            }
                        }
                    } else {
                        // literal true/false
                        refeval::eval(ctx, &Default::default(), sym).map_err(|m| Failure::new("harness/c04", m))?
                    };
                    if !got.sem_eq(&exp) {
                        return Err(Failure::new(
                            format!("encoding/{}/unfaithful/{}", entry, role),
                            format!(
                                "{} {} at step {}: script gives {} but the execution has {}\nsystem: {}\nscript:\n{}",
                                role,
                                refeval::show(ctx, *e),
                                step,
                                got.short(),
                                exp.short(),
                                text,
                                script.join("\n")
                            ),
                        ));
                    }
                }
            }
        }
        // non-triviality: a non-leaf signal used by two of {init, next, other}
        let uses = |roots: Vec<ExprRef>| -> rustc_hash::FxHashSet<ExprRef> {
            refeval::reachable(ctx, &roots).into_iter().filter(|e| !ctx[*e].is_symbol() && !ctx[*e].is_bv_lit()).collect()
        };
        let ui = uses(sys.get_init_exprs());
        let un = uses(sys.get_next_exprs());
        let uo = uses(sys.get_assert_assume_exprs());
        let shared = ui.intersection(&un).next().is_some()
            || ui.intersection(&uo).next().is_some()
            || un.intersection(&uo).next().is_some();
        if shared {
            rec.label("shared-signal");
        }
        if shared && depth >= 1 {
            rec.nontrivial(hash_bytes(script.join("\n").as_bytes()));
            if rec.want_sample() && script.len() < 40 {
                rec.sample(format!("{} || {}", text, script.join(" ")));
            }
        }
        Ok(())
    }
}
