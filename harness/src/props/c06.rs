//! C06 — concrete evaluation follows SMT-LIB bit-vector/array semantics; results canonical;
//! supplying a value for an inner expression short-circuits evaluation of that sub-tree.

use crate::engine::*;
use crate::gen_expr::{GenCfg, WidthProfile, gen_case};
use crate::refeval::{self, Env, children, is_divrem, op_name, reachable};
use crate::refval::{Arr, Bv, Val};
use crate::tape::{SplitMix, Tape, hash_bytes, ones};
use baa::{BitVecOps, BitVecValue, Value};
use num_bigint::BigUint;
use num_traits::{One, Zero};
use patronus::expr::{
    Context, Expr, ExprRef, SymbolValueStore, Type, TypeCheck, eval_array_expr, eval_bv_expr,
    eval_expr,
};
use rustc_hash::FxHashMap;

pub struct C06;

pub fn wclass(w: u32) -> &'static str {
    if w <= 64 {
        "w<=64"
    } else if w <= 128 {
        "w65-128"
    } else {
        "w>128"
    }
}

const GRID_WIDTHS: [u32; 16] = [1, 2, 7, 8, 31, 32, 33, 63, 64, 65, 127, 128, 129, 130, 192, 200];
const GRID_OPS: [&str; 27] = [
    "zext", "sext", "slice", "not", "neg", "eq", "implies", "ugt", "sgt", "uge", "sge", "concat",
    "and", "or", "xor", "shl", "ashr", "lshr", "add", "mul", "sub", "ite", "aread", "astore",
    "aconst", "aeq", "aite",
];

pub fn corner_values(w: u32) -> Vec<BigUint> {
    let o = ones(w);
    let one = BigUint::one();
    let mut v: Vec<BigUint> = vec![
        BigUint::zero(),
        one.clone(),
        o.clone(),
        &one << (w - 1),
        (&one << (w - 1)) - (if w > 1 { one.clone() } else { BigUint::zero() }),
        &o - (if w > 1 { one.clone() } else { BigUint::zero() }),
        (&one << (w - 1)) | &one,
        BigUint::from(w),
        BigUint::from(w - 1),
        BigUint::from(w + 1),
        BigUint::from(64u32),
        BigUint::from(128u32),
        BigUint::from(63u32),
        &one << 64,
        (&one << 64) | &one,
        &one << 32,
        BigUint::from(0x5555_5555_5555_5555u64) * ((&one << 64) + &one) * ((&one << 128) + &one),
        BigUint::from(0xdead_beef_0123_4567u64) << (w / 2),
    ];
    for x in v.iter_mut() {
        *x = &*x & &o;
    }
    v.sort();
    v.dedup();
    v
}

#[allow(dead_code)]
fn baa_of(v: &Val, dense: bool) -> Value {
    match v {
        Val::Bv(b) => Value::BitVec(b.to_baa()),
        Val::Arr(a) => Value::Array(a.to_baa(dense)),
    }
}

/// Build a patronus value store from a reference environment.
pub fn store_of(ctx: &Context, env: &Env, dense: bool) -> SymbolValueStore {
    let mut s = SymbolValueStore::default();
    let mut keys: Vec<&ExprRef> = env.keys().collect();
    keys.sort();
    for k in keys {
        match &env[k] {
            Val::Bv(b) => {
                debug_assert_eq!(k.get_bv_type(ctx), Some(b.w));
                s.define_bv(*k, &b.to_baa())
            }
            Val::Arr(a) => s.define_array(*k, a.to_baa(dense)),
        }
    }
    s
}

/// Compare a patronus result with the reference value, including canonicity.
pub fn compare_value(ctx: &mut Context, got: &Value, exp: &Val) -> Result<(), (String, String)> {
    match (got, exp) {
        (Value::BitVec(g), Val::Bv(e)) => compare_bv(ctx, g, e),
        (Value::Array(g), Val::Arr(e)) => {
            let probes: Vec<BigUint> =
                vec![BigUint::zero(), BigUint::one(), ones(e.iw), BigUint::one() << (e.iw - 1)];
            match guard(|| e.agrees_with_baa(g, &probes)) {
                Ok(r) => r.map_err(|m| ("wrong-value".to_string(), m)),
                Err(p) => Err((p.class(), format!("reading the result array panicked: {}", p.msg))),
            }
        }
        _ => Err(("wrong-kind".to_string(), "bit-vector/array kind mismatch".to_string())),
    }
}

pub fn compare_bv(ctx: &mut Context, g: &BitVecValue, e: &Bv) -> Result<(), (String, String)> {
    if g.width() != e.w {
        return Err((
            "wrong-width".to_string(),
            format!("result width {} expected {}", g.width(), e.w),
        ));
    }
    let raw = Bv::raw_from_words(g.words());
    let masked = &raw & ones(e.w);
    if masked != e.v {
        return Err((
            "wrong-value".to_string(),
            format!("got {:x} expected {:x} (width {})", masked, e.v, e.w),
        ));
    }
    // canonical representation
    if raw != e.v || g.words().len() != (e.w as usize).div_ceil(64) {
        return Err((
            "non-canonical".to_string(),
            format!("raw words {:x?} carry bits above width {} (value {:x})", g.words(), e.w, e.v),
        ));
    }
    let canon = e.to_baa();
    if !(*g == canon) {
        return Err(("non-canonical".to_string(), "result != canonical value via PartialEq".into()));
    }
    if ctx.bv_lit(g) != ctx.bv_lit(&canon) {
        return Err((
            "non-canonical".to_string(),
            "result interns to a different literal than the canonical value".into(),
        ));
    }
    Ok(())
}

fn random_val(rng: &mut SplitMix, tpe: Type) -> Val {
    match tpe {
        Type::BV(w) => Val::Bv(Bv::new(w, rng.bits(w))),
        Type::Array(at) => {
            let mut a = Arr::constant(at.index_width, &Bv::new(at.data_width, rng.bits(at.data_width)));
            let n = rng.below(5);
            for _ in 0..n {
                a = a.store(
                    &Bv::new(at.index_width, rng.bits(at.index_width)),
                    &Bv::new(at.data_width, rng.bits(at.data_width)),
                );
            }
            Val::Arr(a)
        }
    }
}

pub fn random_env(ctx: &Context, symbols: &[ExprRef], rng: &mut SplitMix) -> Env {
    let mut env = Env::default();
    // occasionally make same-typed symbols equal (equal operands are a corner case)
    let mut last_of_type: FxHashMap<Type, Val> = FxHashMap::default();
    for s in symbols {
        let tpe = s.get_type(ctx);
        let v = if rng.below(5) == 0 && last_of_type.contains_key(&tpe) {
            last_of_type[&tpe].clone()
        } else {
            random_val(rng, tpe)
        };
        last_of_type.insert(tpe, v.clone());
        env.insert(*s, v);
    }
    env
}

/// First node (bottom-up) at which patronus' evaluator disagrees with the reference when the
/// reference values of its children are supplied. Returns signature tail and detail.
pub fn localise(ctx: &mut Context, env: &Env, root: ExprRef) -> Option<(String, String)> {
    let mut cache = FxHashMap::default();
    let _ = refeval::eval_cached(ctx, env, root, &mut cache).ok()?;
    for n in reachable(ctx, &[root]) {
        if ctx[n].is_symbol() || !cache.contains_key(&n) || env.contains_key(&n) {
            continue;
        }
        if children(&ctx[n]).iter().any(|c| !cache.contains_key(c)) {
            continue;
        }
        let mut local = Env::default();
        for c in children(&ctx[n]) {
            if !matches!(ctx[c], Expr::BVLiteral(_)) {
                local.insert(c, cache[&c].clone());
            }
        }
        let store = store_of(ctx, &local, false);
        let exp = cache[&n].clone();
        let w = node_width_class(ctx, n);
        let op = op_name(&ctx[n]);
        match guard(|| eval_expr(ctx, &store, n)) {
            Err(p) => {
                return Some((
                    format!("{}/{}/{}", op, w, p.class()),
                    format!("node {} panicked: {}:{} {}", refeval::show(ctx, n), p.file, p.line, p.msg),
                ));
            }
            Ok(got) => {
                if let Err((kind, msg)) = compare_value(ctx, &got, &exp) {
                    let args: Vec<String> =
                        children(&ctx[n]).iter().map(|c| cache[c].short()).collect();
                    // array equality: keep the direction of the error in the signature
                    let kind = match (&exp, op, kind.as_str()) {
                        (Val::Bv(b), "ArrayEqual", "wrong-value") => {
                            if b.v == BigUint::one() { "wrong-value/false-for-equal-arrays".to_string() } else { "wrong-value/true-for-different-arrays".to_string() }
                        }
                        _ => kind,
                    };
                    return Some((
                        format!("{}/{}/{}", op, w, kind),
                        format!("{}({}) : {}", op, args.join(", "), msg),
                    ));
                }
            }
        }
    }
    None
}

fn node_width_class(ctx: &Context, n: ExprRef) -> &'static str {
    // class by the widest bit-vector among the node and its children
    let mut w = match n.get_type(ctx) {
        Type::BV(w) => w,
        Type::Array(a) => a.data_width.max(a.index_width),
    };
    for c in children(&ctx[n]) {
        w = w.max(match c.get_type(ctx) {
            Type::BV(w) => w,
            Type::Array(a) => a.data_width.max(a.index_width),
        });
    }
    wclass(w)
}

/// Full comparison of one root under one environment through the entry point fitting the root type.
pub fn check_eval(
    ctx: &mut Context,
    env: &Env,
    root: ExprRef,
    dense: bool,
    entry: u32,
) -> Result<(), Failure> {
    let exp = match refeval::eval(ctx, env, root) {
        Ok(v) => v,
        Err(e) => return Err(Failure::new("harness/refeval", e)),
    };
    let store = store_of(ctx, env, dense);
    let is_bv = root.get_type(ctx).is_bit_vector();
    let got = guard(|| match (entry % 3, is_bv) {
        (0, _) => eval_expr(ctx, &store, root),
        (_, true) => Value::BitVec(eval_bv_expr(ctx, &store, root)),
        (_, false) => Value::Array(eval_array_expr(ctx, &store, root)),
    });
    let fail = |ctx: &mut Context, kind: String, msg: String| -> Failure {
        let (sig_tail, detail) = localise(ctx, env, root).unwrap_or_else(|| {
            (format!("whole-expression/any/{}", kind), msg.clone())
        });
        let mut envs: Vec<String> = env
            .iter()
            .map(|(k, v)| format!("{}={}", refeval::show(ctx, *k), v.short()))
            .collect();
        envs.sort();
        Failure::new(
            format!("eval/{}", sig_tail),
            format!("{}\nexpr: {}\nenv: {}\nroot: {}", detail, refeval::show(ctx, root), envs.join(" "), msg),
        )
    };
    match got {
        Err(p) => {
            let msg = format!("panic {}:{} {}", p.file, p.line, p.msg);
            Err(fail(ctx, p.class(), msg))
        }
        Ok(got) => match compare_value(ctx, &got, &exp) {
            Ok(()) => Ok(()),
            Err((kind, msg)) => Err(fail(ctx, kind, msg)),
        },
    }
}

impl C06 {
    fn grid_item(&self, idx: u64, rec: &mut Recorder) -> Result<(), Failure> {
        let op = GRID_OPS[(idx as usize) / GRID_WIDTHS.len()];
        let w = GRID_WIDTHS[(idx as usize) % GRID_WIDTHS.len()];
        let mut ctx = Context::default();
        let a = ctx.bv_symbol("a", w);
        let b = ctx.bv_symbol("b", w);
        let c = ctx.bv_symbol("c", 1);
        let vals = corner_values(w);
        let mut first_fail: Option<Failure> = None;
        let mut run = |ctx: &mut Context, e: ExprRef, env: &Env, rec: &mut Recorder| {
            rec.eval();
            rec.nontrivial(hash_bytes(format!("{}:{}:{:?}", op, w, {
                let mut v: Vec<String> = env.iter().map(|(k, v)| format!("{:?}{}", k, v.short())).collect();
                v.sort();
                v
            }).as_bytes()) ^ hash_bytes(refeval::show(ctx, e).as_bytes()));
            if let Err(f) = check_eval(ctx, env, e, false, (w + 1) % 3) {
                if first_fail.is_none() {
                    first_fail = Some(f);
                }
            }
        };
        rec.label(&format!("grid:{}", op));
        match op {
            "zext" | "sext" | "slice" | "not" | "neg" | "aconst" => {
                let exprs: Vec<ExprRef> = match op {
                    "zext" => [1u32, 63, 64, 65].iter().map(|by| ctx.zero_extend(a, *by)).collect(),
                    "sext" => [1u32, 63, 64, 65].iter().map(|by| ctx.sign_extend(a, *by)).collect(),
                    "slice" => {
                        let mut v = vec![];
                        for (hi, lo) in [
                            (w - 1, 0),
                            (w - 1, w - 1),
                            (0, 0),
                            (w - 1, w / 2),
                            (w / 2, 0),
                            (w - 1, 1.min(w - 1)),
                            (w.saturating_sub(2), 0),
                            (64.min(w - 1), 63.min(w - 1)),
                            (w - 1, 64.min(w - 1)),
                        ] {
                            if hi >= lo && hi < w {
                                v.push(ctx.slice(a, hi, lo));
                            }
                        }
                        v
                    }
                    "not" => vec![ctx.not(a)],
                    "neg" => vec![ctx.negate(a)],
                    _ => vec![ctx.array_const(a, 1), ctx.array_const(a, 3), ctx.array_const(a, 70)],
                };
                for e in exprs {
                    for va in vals.iter() {
                        let mut env = Env::default();
                        env.insert(a, Val::Bv(Bv::new(w, va.clone())));
                        run(&mut ctx, e, &env, rec);
                    }
                }
            }
            "ite" => {
                let e = ctx.ite(c, a, b);
                for cv in [0u64, 1] {
                    for (i, va) in vals.iter().enumerate() {
                        let vb = &vals[(i + 3) % vals.len()];
                        let mut env = Env::default();
                        env.insert(a, Val::Bv(Bv::new(w, va.clone())));
                        env.insert(b, Val::Bv(Bv::new(w, vb.clone())));
                        env.insert(c, Val::Bv(Bv::from_u64(1, cv)));
                        run(&mut ctx, e, &env, rec);
                    }
                }
            }
            "aread" | "astore" | "aeq" | "aite" => {
                // arrays with data width w and index widths 1, 3; and index width w (<= 70), data 5
                let big_iw = if op == "aread" { w.min(70) } else { w.min(64) };
                for iw in [1u32, 3, big_iw] {
                    let dw = if iw == big_iw && iw > 3 { 5 } else { w };
                    let arr = ctx.array_symbol(&format!("m{}_{}", iw, dw), iw, dw);
                    let arr2 = ctx.array_symbol(&format!("n{}_{}", iw, dw), iw, dw);
                    let idx = ctx.bv_symbol(&format!("i{}", iw), iw);
                    let dat = ctx.bv_symbol(&format!("d{}", dw), dw);
                    let e = match op {
                        "aread" => ctx.array_read(arr, idx),
                        "astore" => ctx.array_store(arr, idx, dat),
                        "aeq" => ctx.equal(arr, arr2),
                        _ => ctx.ite(c, arr, arr2),
                    };
                    let ivals = corner_values(iw);
                    let dvals = corner_values(dw);
                    let mut rng = SplitMix(idx_seed(idx_of(op), w, iw));
                    for k in 0..24usize {
                        let mut env = Env::default();
                        let mk = |rng: &mut SplitMix, variant: usize| -> Arr {
                            let mut m = Arr::constant(iw, &Bv::new(dw, dvals[(k + variant) % dvals.len()].clone()));
                            let n = (k + variant) % 4;
                            for j in 0..n {
                                let _ = rng;
                                m = m.store(
                                    &Bv::new(iw, ivals[(k + j) % ivals.len()].clone()),
                                    &Bv::new(dw, dvals[(k + 2 * j + variant) % dvals.len()].clone()),
                                );
                            }
                            m
                        };
                        let m1 = mk(&mut rng, 0);
                        // second array: equal content different representation, or different
                        let m2 = match k % 4 {
                            0 => m1.clone(),
                            1 => {
                                // same function, different default (only if fully covered) or extra redundant entry
                                let mut m = m1.clone();
                                let i0 = Bv::new(iw, ivals[k % ivals.len()].clone());
                                let cur = m1.select(&i0);
                                m = m.store(&i0, &cur);
                                m
                            }
                            2 if iw <= 3 => {
                                // same function expressed with a different default: all indices stored
                                let nd = Bv::new(dw, dvals[(k + 5) % dvals.len()].clone());
                                let mut m = Arr::constant(iw, &nd);
                                for i in 0..(1u64 << iw) {
                                    let ii = Bv::from_u64(iw, i);
                                    m = m.store(&ii, &m1.select(&ii));
                                }
                                m
                            }
                            _ => mk(&mut rng, 1),
                        };
                        // baa's sparse arrays with index width > 64 hash through an unimplemented
                        // Borrow impl: a lookup panics iff a key with the same hash tag is present
                        // (std RandomState => non-deterministic for absent keys). Only the
                        // deterministic case (reading a present key) is exercised there.
                        let mut idx_val = ivals[k % ivals.len()].clone();
                        if iw > 64 {
                            let n1 = m1.normalized();
                            match n1.map.keys().next() {
                                Some(key) => idx_val = key.clone(),
                                None => continue,
                            }
                        }
                        env.insert(arr, Val::Arr(m1));
                        env.insert(arr2, Val::Arr(m2));
                        env.insert(idx, Val::Bv(Bv::new(iw, idx_val)));
                        env.insert(dat, Val::Bv(Bv::new(dw, dvals[(k * 7 + 1) % dvals.len()].clone())));
                        env.insert(c, Val::Bv(Bv::from_u64(1, (k % 2) as u64)));
                        // restrict env to the symbols the expression mentions
                        let syms = refeval::symbols_of(&ctx, &[e]);
                        env.retain(|k, _| syms.contains(k));
                        rec.eval();
                        rec.nontrivial(hash_bytes(format!("{}{}{}{}", op, w, iw, k).as_bytes()));
                        for dense in [false, true] {
                            if let Err(f) = check_eval(&mut ctx, &env, e, dense, k as u32) {
                                if first_fail.is_none() {
                                    first_fail = Some(f);
                                }
                            }
                        }
                    }
                }
            }
            _ => {
                if op == "implies" && w != 1 {
                    return Ok(());
                }
                let e = match op {
                    "eq" => ctx.equal(a, b),
                    "implies" => ctx.implies(a, b),
                    "ugt" => ctx.greater(a, b),
                    "sgt" => ctx.greater_signed(a, b),
                    "uge" => ctx.greater_or_equal(a, b),
                    "sge" => ctx.greater_or_equal_signed(a, b),
                    "concat" => ctx.concat(a, b),
                    "and" => ctx.and(a, b),
                    "or" => ctx.or(a, b),
                    "xor" => ctx.xor(a, b),
                    "shl" => ctx.shift_left(a, b),
                    "ashr" => ctx.arithmetic_shift_right(a, b),
                    "lshr" => ctx.shift_right(a, b),
                    "add" => ctx.add(a, b),
                    "mul" => ctx.mul(a, b),
                    "sub" => ctx.sub(a, b),
                    _ => unreachable!(),
                };
                for va in vals.iter() {
                    for vb in vals.iter() {
                        let mut env = Env::default();
                        env.insert(a, Val::Bv(Bv::new(w, va.clone())));
                        env.insert(b, Val::Bv(Bv::new(w, vb.clone())));
                        run(&mut ctx, e, &env, rec);
                    }
                }
                // same symbol on both sides
                let e2 = match op {
                    "uge" => Some(ctx.greater_or_equal(a, a)),
                    "sge" => Some(ctx.greater_or_equal_signed(a, a)),
                    "eq" => Some(ctx.equal(a, a)),
                    "sub" => Some(ctx.sub(a, a)),
                    _ => None,
                };
                if let Some(e2) = e2 {
                    for va in vals.iter() {
                        let mut env = Env::default();
                        env.insert(a, Val::Bv(Bv::new(w, va.clone())));
                        run(&mut ctx, e2, &env, rec);
                    }
                }
            }
        }
        match first_fail {
            Some(f) => Err(f),
            None => Ok(()),
        }
    }
}

fn idx_of(op: &str) -> u64 {
    GRID_OPS.iter().position(|o| *o == op).unwrap_or(0) as u64
}
fn idx_seed(a: u64, w: u32, iw: u32) -> u64 {
    a.wrapping_mul(1000003) ^ ((w as u64) << 20) ^ iw as u64
}

impl Prop for C06 {
    fn id(&self) -> &'static str {
        "C06"
    }
    fn fuzz_target(&self) -> Option<&'static str> {
        Some("tape")
    }
    fn rule(&self) -> String {
        "(i) operator grid: every implemented operator x widths {1,2,7,8,31,32,33,63,64,65,127,128,129,130,192,200} x all pairs of ~18 corner operand values (exhaustive over the grid); (ii) tape-decoded expression DAGs without div/rem over widths {1,2-8,31-33,63-65,127-129,130-200} with sparse/dense array values, evaluated through eval_expr/eval_bv_expr/eval_array_expr and all value stores, plus short-circuit cases (value supplied for an inner node, symbols below it left undefined) and store histories (a SymbolValueStore defined with one assignment, overwritten through update_bv / update_array / update with the next, then evaluated). Oracle: independent BigUint evaluator; canonicity = no bits above width, == canonical via PartialEq, interns to same literal. Non-trivial: grid case (each distinct op/width/operand tuple), or DAG case with >=3 operators and >=1 operand wider than 64 bits; distinct by hash of (expression, assignment).".into()
    }
    fn assumptions(&self) -> Vec<String> {
        vec![
            "reference evaluator (refval/refeval) implements SMT-LIB 2.6 semantics (unit-tested vectors)".into(),
            "release profile with debug-assertions and overflow-checks on".into(),
        ]
    }
    fn budget(&self, tier: Tier) -> Budget {
        match tier {
            Tier::Quick => Budget { cases: 800_000, max_tape: 256 },
            Tier::Thorough => Budget { cases: 12_000_000, max_tape: 512 },
        }
    }
    fn items(&self, _tier: Tier) -> u64 {
        (GRID_OPS.len() * GRID_WIDTHS.len()) as u64
    }
    fn exhaustive_note(&self) -> Option<String> {
        Some("operator grid enumerated completely (27 operators x 16 widths x corner tuples)".into())
    }
    fn run_item(&self, idx: u64, _tier: Tier, rec: &mut Recorder) -> Result<(), Failure> {
        self.grid_item(idx, rec)
    }
    fn run_tape(&self, tape: &[u8], tier: Tier, rec: &mut Recorder) -> Result<(), Failure> {
        let mut t = Tape::new(tape);
        let cfg = GenCfg {
            widths: WidthProfile::Wide,
            arrays: true,
            divrem: false,
            max_steps: if tier == Tier::Quick { 16 } else { 40 },
            exotic_names: false,
            max_index_width: 10,
        };
        let mut case = gen_case(&mut t, &cfg, 1);
        let root = case.roots[0];
        let ctx = &mut case.ctx;
        let nodes = reachable(ctx, &[root]);
        if nodes.iter().any(|n| is_divrem(&ctx[*n])) {
            rec.exclude("contains div/rem");
            return Ok(());
        }
        let syms: Vec<ExprRef> = nodes.iter().copied().filter(|n| ctx[*n].is_symbol()).collect();
        let n_ops = nodes.iter().filter(|n| !ctx[**n].is_symbol() && !ctx[**n].is_bv_lit()).count();
        let max_w = nodes
            .iter()
            .map(|n| match n.get_type(ctx) {
                Type::BV(w) => w,
                Type::Array(a) => a.data_width,
            })
            .max()
            .unwrap_or(1);
        let mut rng = SplitMix(hash_bytes(tape));
        let n_assign = 3;
        let has_arrays = syms.iter().any(|s| s.get_type(ctx).is_array());
        let mut prev_env: Option<Env> = None;
        for k in 0..n_assign {
            let env = random_env(ctx, &syms, &mut rng);
            rec.eval();
            let h = hash_bytes(refeval::show(ctx, root).as_bytes()) ^ rng.0;
            if n_ops >= 3 && max_w > 64 {
                rec.nontrivial(h);
            }
            rec.label(&format!("root:{}", op_name(&ctx[root])));
            if k == 0 {
                rec.label(&format!("maxwidth:{}", wclass(max_w)));
                if has_arrays {
                    rec.label("with-array-symbols");
                }
                if rec.want_sample() && n_ops >= 3 {
                    let mut envs: Vec<String> = env
                        .iter()
                        .map(|(k, v)| format!("{}={}", refeval::show(ctx, *k), v.short()))
                        .collect();
                    envs.sort();
                    rec.sample(format!("{} under {}", refeval::show(ctx, root), envs.join(" ")));
                }
            }
            check_eval(ctx, &env, root, k % 2 == 1, k as u32)?;

            // history on one store: symbols defined with the previous assignment are overwritten through
            // the update entry points (update_bv / update_array / update), then the root is evaluated
            if let Some(prev) = prev_env.as_ref() {
                let exp = refeval::eval(ctx, &env, root).map_err(|e| Failure::new("harness/refeval", e))?;
                let mut store = store_of(ctx, prev, k % 2 == 0);
                let mut keys: Vec<ExprRef> = env.keys().copied().collect();
                keys.sort();
                let via_value = rng.below(2) == 0;
                let upd = guard(|| {
                    for s in keys.iter() {
                        match &env[s] {
                            Val::Bv(b) => {
                                if via_value {
                                    store.update(*s, Value::BitVec(b.to_baa()))
                                } else {
                                    store.update_bv(*s, &b.to_baa())
                                }
                            }
                            Val::Arr(a) => {
                                if via_value {
                                    store.update(*s, Value::Array(a.to_baa(k % 2 == 1)))
                                } else {
                                    store.update_array(*s, a.to_baa(k % 2 == 1))
                                }
                            }
                        }
                    }
                    eval_expr(ctx, &store, root)
                });
                let show_envs = |ctx: &Context, e: &Env| -> String {
                    let mut v: Vec<String> = e.iter().map(|(k, v)| format!("{}={}", refeval::show(ctx, *k), v.short())).collect();
                    v.sort();
                    v.join(" ")
                };
                match upd {
                    Err(p) => {
                        // evaluation panics of listed findings surface here as well: same signatures as above
                        if let Some((tail, detail)) = localise(ctx, &env, root) {
                            return Err(Failure::new(format!("eval/{}", tail), detail));
                        }
                        return Err(Failure::new(
                            format!("eval/store-update/{}", p.class()),
                            format!("panic {}:{} {}\nexpr: {}", p.file, p.line, p.msg, refeval::show(ctx, root)),
                        ));
                    }
                    Ok(got) => {
                        if let Err((kind, msg)) = compare_value(ctx, &got, &exp) {
                            // a plain evaluation defect (fresh store) has been reported by check_eval above
                            return Err(Failure::new(
                                format!("eval/store-update/{}", kind),
                                format!(
                                    "{}\nexpr: {}\nstore defined with: {}\nthen updated ({}) to: {}",
                                    msg,
                                    refeval::show(ctx, root),
                                    show_envs(ctx, prev),
                                    if via_value { "update" } else { "update_bv/update_array" },
                                    show_envs(ctx, &env)
                                ),
                            ));
                        }
                        rec.label("store-updated-in-place");
                    }
                }
            }
            prev_env = Some(env.clone());

            // other value stores (bit-vector only symbols)
            if !has_arrays && root.get_type(ctx).is_bit_vector() {
                let exp = refeval::eval(ctx, &env, root).map_err(|e| Failure::new("harness/refeval", e))?;
                let pairs: Vec<(ExprRef, BitVecValue)> =
                    syms.iter().map(|s| (*s, env[s].bv().to_baa())).collect();
                let map: FxHashMap<ExprRef, BitVecValue> = pairs.iter().cloned().collect();
                let r1 = guard(|| eval_bv_expr(ctx, pairs.as_slice(), root));
                let r2 = guard(|| eval_bv_expr(ctx, &map, root));
                for (name, r) in [("slice-store", r1), ("hashmap-store", r2)] {
                    match r {
                        Err(p) => {
                            return Err(Failure::new(
                                format!("eval/{}/{}", name, p.class()),
                                format!("panic {}:{} {} on {}", p.file, p.line, p.msg, refeval::show(ctx, root)),
                            ));
                        }
                        Ok(g) => {
                            if Bv::from_baa(&g) != *exp.bv() {
                                // the SymbolValueStore path passed, so this is store specific
                                return Err(Failure::new(
                                    format!("eval/{}/wrong-value", name),
                                    format!("{} differs through {}", refeval::show(ctx, root), name),
                                ));
                            }
                        }
                    }
                }
                rec.label("alt-stores");
            }

            // short-circuit: supply a value for an inner node
            let inner: Vec<ExprRef> = nodes
                .iter()
                .copied()
                .filter(|n| *n != root && !ctx[*n].is_symbol() && !ctx[*n].is_bv_lit())
                .collect();
            if !inner.is_empty() {
                let n = inner[(rng.below(inner.len() as u64)) as usize];
                let v = random_val(&mut rng, n.get_type(ctx));
                let mut env2 = env.clone();
                env2.insert(n, v);
                // symbols that occur only below n need no value: compute symbols still needed
                let mut needed: rustc_hash::FxHashSet<ExprRef> = Default::default();
                let mut todo = vec![root];
                let mut seen: rustc_hash::FxHashSet<ExprRef> = Default::default();
                while let Some(e) = todo.pop() {
                    if !seen.insert(e) {
                        continue;
                    }
                    if e == n {
                        continue;
                    }
                    if ctx[e].is_symbol() {
                        needed.insert(e);
                    }
                    for c in children(&ctx[e]) {
                        todo.push(c);
                    }
                }
                env2.retain(|k, _| *k == n || needed.contains(k));
                rec.label("short-circuit");
                check_eval(ctx, &env2, root, false, 0)?;
            }
        }
        Ok(())
    }
}
