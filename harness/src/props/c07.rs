//! C07 — the simulator executes exactly the transition-system semantics (stateful, model-based).

use crate::engine::*;
use crate::gen_sys::{SysCfg, gen_system, show_system};
use crate::refeval::{self, Env, reachable};
use crate::refval::{Bv, Val};
use crate::sysutil::random_val;
use crate::tape::{SplitMix, Tape, hash_bytes};
use baa::{ArrayOps, BitVecOps, Value};
use patronus::expr::{Context, ExprRef, Type, TypeCheck};
use patronus::sim::{InitKind, Interpreter, Simulator};
use patronus::system::TransitionSystem;

pub struct C07;

fn val_of_value(v: &Value) -> Val {
    match v {
        Value::BitVec(b) => Val::Bv(Bv::from_baa(b)),
        Value::Array(a) => {
            use crate::refval::Arr;
            let iw = a.index_width();
            let dw = a.data_width();
            // read the whole table (index widths are small here)
            let mut arr = Arr::constant(iw, &Bv::zero(dw));
            for i in 0..(1u64 << iw.min(12)) {
                let idx = Bv::from_u64(iw, i);
                let d = a.select(&idx.to_baa());
                arr = arr.store(&idx, &Bv::from_baa(&d));
            }
            Val::Arr(arr)
        }
    }
}

struct Model<'a> {
    ctx: &'a Context,
    sys: &'a TransitionSystem,
    env: Env,
    snapshots: Vec<Vec<Val>>,
}

impl<'a> Model<'a> {
    fn state_vals(&self) -> Vec<Val> {
        self.sys.states.iter().map(|s| self.env[&s.symbol].clone()).collect()
    }
    fn step(&mut self) -> Result<(), String> {
        let mut cache = Default::default();
        let mut next: Vec<Option<Val>> = vec![];
        for s in self.sys.states.iter() {
            next.push(match s.next {
                Some(n) => Some(refeval::eval_cached(self.ctx, &self.env, n, &mut cache)?),
                None => None,
            });
        }
        for (s, n) in self.sys.states.iter().zip(next.into_iter()) {
            if let Some(v) = n {
                self.env.insert(s.symbol, v);
            }
        }
        Ok(())
    }
}

fn get_guarded(sim: &Interpreter, e: ExprRef) -> Result<Value, PanicInfo> {
    guard(|| sim.get(e))
}

fn panic_fail(what: &str, p: PanicInfo, ctx: &Context, sys: &TransitionSystem, hist: &[String]) -> Failure {
    Failure::new(
        format!("sim/{}/{}", what, p.class()),
        format!("panic {}:{} {}\nhistory: {}\nsystem: {}", p.file, p.line, p.msg, hist.join(" ; "), show_system(ctx, sys)),
    )
}

impl Prop for C07 {
    fn id(&self) -> &'static str {
        "C07"
    }
    fn fuzz_target(&self) -> Option<&'static str> {
        Some("tape")
    }
    fn rule(&self) -> String {
        "stateful, model-based: generated transition system (bit-vector states up to 70 bits and array states, with/without init, init over earlier states, constant states, states without next) plus a tape-decoded history of <= 40 operations init(Zero|Random(seed)) / set(input, value) (one time in four: set(state, value)) / step / get(state|input|output|bad|constraint|sub-expression) / take_snapshot / restore_snapshot(k) run on patronus::sim::Interpreter and on a reference model built on the independent evaluator; after every operation all observable expressions must agree (in half of the histories reads are sparse: skipped after some operations and restricted to a random subset, so that state kept between two reads of an expression can go stale). init(Random) values are read back once for init-less symbols, init-ed states are checked against their init expressions, and a second interpreter with the same seed must agree. restore must reproduce the state values of the snapshot (inputs are re-synchronised by reading them back) and the continuation is compared step by step. Non-trivial: history with a step after a set-input and a restore followed by a step, on a system with >= 2 states where one next function reads another state; distinct by hash of the tape.".into()
    }
    fn budget(&self, tier: Tier) -> Budget {
        match tier {
            Tier::Quick => Budget { cases: 400_000, max_tape: 768 },
            Tier::Thorough => Budget { cases: 6_000_000, max_tape: 1280 },
        }
    }
    fn run_tape(&self, tape: &[u8], _tier: Tier, rec: &mut Recorder) -> Result<(), Failure> {
        let mut t = Tape::new(tape);
        let cfg = SysCfg {
            max_state_bits: 12,
            max_input_bits: 6,
            wide_states: true,
            names_and_aliases: true,
            divrem: false,
            ..SysCfg::default()
        };
        let case = gen_system(&mut t, &cfg);
        let ctx = &case.ctx;
        let sys = &case.sys;
        rec.eval();
        let mut rng = SplitMix(hash_bytes(tape));
        let observable: Vec<ExprRef> = {
            let mut v = sys.get_all_exprs();
            let all = reachable(ctx, &v);
            // a few sub-expressions
            for _ in 0..3 {
                if !all.is_empty() {
                    v.push(all[rng.below(all.len() as u64) as usize]);
                }
            }
            v.sort();
            v.dedup();
            v
        };
        let mut env_before_step: Option<Env> = None;
        let sparse_reads = t.flag();
        if sparse_reads {
            rec.label("reads:sparse");
        }
        // both public constructors that need no file: plain, and with tracing switched on
        let traced = t.chance(64);
        if traced {
            rec.label("constructor:new_with_trace");
        }
        let mut sim = match guard(|| if traced { Interpreter::new_with_trace(ctx, sys) } else { Interpreter::new(ctx, sys) }) {
            Ok(s) => s,
            Err(p) => return Err(panic_fail("new", p, ctx, sys, &[])),
        };
        let mut model = Model { ctx, sys, env: Env::default(), snapshots: vec![] };
        let mut hist: Vec<String> = vec![];
        let n_ops = 3 + t.below(38);
        let mut initialised = false;
        let mut set_then_step = false;
        let mut pending_set = false;
        let mut restore_then_step = false;
        let mut pending_restore = false;
        let mut snapshots_taken = 0u32;

        for _ in 0..n_ops {
            let op = if !initialised { 0 } else { t.weighted(&[1, 5, 6, 2, 2, 2]) };
            match op {
                0 => {
                    let kind = if t.flag() { InitKind::Zero } else { InitKind::Random(t.u64()) };
                    hist.push(format!("init({:?})", kind));
                    if let Err(p) = guard(|| sim.init(kind)) {
                        return Err(panic_fail("init", p, ctx, sys, &hist));
                    }
                    // build the model: free values are zero or read back
                    let mut env = Env::default();
                    for i in sys.inputs.iter() {
                        let v = match kind {
                            InitKind::Zero => crate::refsim::decode_value_zero(i.get_type(ctx)),
                            InitKind::Random(_) => val_of_value(
                                &get_guarded(&sim, *i).map_err(|p| panic_fail("get", p, ctx, sys, &hist))?,
                            ),
                        };
                        env.insert(*i, v);
                    }
                    for s in sys.states.iter() {
                        let v = match (s.init, kind) {
                            (Some(e), _) => refeval::eval(ctx, &env, e).map_err(|m| Failure::new("harness/c07", m))?,
                            (None, InitKind::Zero) => crate::refsim::decode_value_zero(s.symbol.get_type(ctx)),
                            (None, InitKind::Random(_)) => val_of_value(
                                &get_guarded(&sim, s.symbol).map_err(|p| panic_fail("get", p, ctx, sys, &hist))?,
                            ),
                        };
                        env.insert(s.symbol, v);
                    }
                    model.env = env;
                    if let InitKind::Random(_) = kind {
                        // seed-determined: a second interpreter with the same seed agrees
                        let mut sim2 = Interpreter::new(ctx, sys);
                        if let Err(p) = guard(|| sim2.init(kind)) {
                            return Err(panic_fail("init", p, ctx, sys, &hist));
                        }
                        for e in sys.inputs.iter().copied().chain(sys.states.iter().map(|s| s.symbol)) {
                            let a = get_guarded(&sim, e).map_err(|p| panic_fail("get", p, ctx, sys, &hist))?;
                            let b = get_guarded(&sim2, e).map_err(|p| panic_fail("get", p, ctx, sys, &hist))?;
                            if !val_of_value(&a).sem_eq(&val_of_value(&b)) {
                                return Err(Failure::new(
                                    "sim/init-random/not-seed-determined",
                                    format!("{} differs between two interpreters with the same seed\n{}", refeval::show(ctx, e), show_system(ctx, sys)),
                                ));
                            }
                        }
                        rec.label("init-random");
                    }
                    initialised = true;
                }
                1 => {
                    // mostly an input; one time in four a bit-vector state is overwritten (`set` takes any
                    // symbol: this is how a witness' initial state values are loaded into the simulator)
                    let bv_states: Vec<ExprRef> =
                        sys.states.iter().map(|s| s.symbol).filter(|s| s.get_type(ctx).is_bit_vector()).collect();
                    let poke = initialised && !bv_states.is_empty() && t.chance(64);
                    if !poke && sys.inputs.is_empty() {
                        continue;
                    }
                    let i = if poke {
                        rec.label("set-on-a-state");
                        bv_states[t.below(bv_states.len() as u32) as usize]
                    } else {
                        sys.inputs[t.below(sys.inputs.len() as u32) as usize]
                    };
                    let Type::BV(w) = i.get_type(ctx) else { continue };
                    let v = Bv::new(w, t.bits(w));
                    hist.push(format!("set({}, {})", refeval::show(ctx, i), v.short()));
                    if let Err(p) = guard(|| sim.set(i, &v.to_baa())) {
                        return Err(panic_fail("set", p, ctx, sys, &hist));
                    }
                    model.env.insert(i, Val::Bv(v));
                    pending_set = true;
                }
                2 => {
                    hist.push("step".into());
                    if let Err(p) = guard(|| sim.step()) {
                        return Err(panic_fail("step", p, ctx, sys, &hist));
                    }
                    env_before_step = Some(model.env.clone());
                    model.step().map_err(|m| Failure::new("harness/c07", m))?;
                    if pending_set {
                        set_then_step = true;
                    }
                    if pending_restore {
                        restore_then_step = true;
                    }
                }
                3 => {
                    hist.push("snapshot".into());
                    let id = guard(|| sim.take_snapshot()).map_err(|p| panic_fail("snapshot", p, ctx, sys, &hist))?;
                    if id != snapshots_taken {
                        return Err(Failure::new("sim/snapshot/id", format!("snapshot id {} expected {}", id, snapshots_taken)));
                    }
                    snapshots_taken += 1;
                    model.snapshots.push(model.state_vals());
                }
                4 => {
                    if snapshots_taken == 0 {
                        continue;
                    }
                    let k = t.below(snapshots_taken);
                    hist.push(format!("restore({})", k));
                    if let Err(p) = guard(|| sim.restore_snapshot(k)) {
                        return Err(panic_fail("restore", p, ctx, sys, &hist));
                    }
                    let saved = model.snapshots[k as usize].clone();
                    for (s, v) in sys.states.iter().zip(saved.into_iter()) {
                        model.env.insert(s.symbol, v);
                    }
                    // the property promises states only; inputs are re-synchronised by reading them back
                    for i in sys.inputs.iter() {
                        let v = get_guarded(&sim, *i).map_err(|p| panic_fail("get", p, ctx, sys, &hist))?;
                        model.env.insert(*i, val_of_value(&v));
                    }
                    pending_restore = true;
                }
                _ => {
                    // extra reads do not change anything
                    hist.push("get*".into());
                }
            }
            // ---- compare the observable expressions: in dense histories all of them after every operation,
            //      in sparse histories (half of the cases) only now and then and only some of them, so that
            //      whatever the simulator keeps between two reads of an expression gets a chance to go stale
            // (state symbols are always read right after a step, so that a wrongly computed next value is
            //  attributed to that step and to the evaluator's known defects rather than surfacing later)
            let after_step = hist.last().map(|h| h == "step").unwrap_or(false);
            let skip_round = sparse_reads && t.flag();
            let mut cache = Default::default();
            for e in observable.iter() {
                let must_read = after_step && sys.states.iter().any(|s| s.symbol == *e);
                if !must_read && (skip_round || (sparse_reads && t.flag())) {
                    continue;
                }
                let exp = refeval::eval_cached(ctx, &model.env, *e, &mut cache).map_err(|m| Failure::new("harness/c07", m))?;
                let got = match get_guarded(&sim, *e) {
                    Ok(v) => v,
                    Err(p) => {
                        let mut c2 = ctx.clone();
                        if let Some((tail, detail)) = crate::props::c06::localise(&mut c2, &model.env, *e) {
                            return Err(Failure::new(
                                format!("sim/eval/{}", tail),
                                format!("{}\nhistory: {}\nsystem: {}", detail, hist.join(" ; "), show_system(ctx, sys)),
                            ));
                        }
                        return Err(Failure::new(
                            format!("sim/get/{}", p.class()),
                            format!("get({}) panicked: {}\nhistory: {}\n{}", refeval::show(ctx, *e), p.msg, hist.join(" ; "), show_system(ctx, sys)),
                        ));
                    }
                };
                let gv = val_of_value(&got);
                if !gv.sem_eq(&exp) {
                    let last = hist.last().cloned().unwrap_or_default();
                    let opname = last.split('(').next().unwrap_or("?").to_string();
                    let role = if sys.states.iter().any(|s| s.symbol == *e) {
                        "state"
                    } else if sys.inputs.contains(e) {
                        "input"
                    } else {
                        "expression"
                    };
                    // a state that is wrong right after a step: did the evaluator (C06's business, shared root
                    // causes) compute its next-state expression wrongly from the values before the step?
                    if role == "state" && opname == "step" {
                        if let (Some(prev), Some(next)) =
                            (env_before_step.as_ref(), sys.states.iter().find(|s| s.symbol == *e).and_then(|s| s.next))
                        {
                            let mut c2 = ctx.clone();
                            if let Some((tail, detail)) = crate::props::c06::localise(&mut c2, prev, next) {
                                return Err(Failure::new(
                                    format!("sim/eval/{}", tail),
                                    format!("{}\nhistory: {}\nsystem: {}", detail, hist.join(" ; "), show_system(ctx, sys)),
                                ));
                            }
                        }
                    }
                    // is it the evaluator (C06's business, shared root causes) or the simulator?
                    if role == "expression" {
                        let mut c2 = ctx.clone();
                        if let Some((tail, detail)) = crate::props::c06::localise(&mut c2, &model.env, *e) {
                            return Err(Failure::new(
                                format!("sim/eval/{}", tail),
                                format!("{}\nhistory: {}\nsystem: {}", detail, hist.join(" ; "), show_system(ctx, sys)),
                            ));
                        }
                    }
                    return Err(Failure::new(
                        format!("sim/wrong-value/after-{}/{}", opname, role),
                        format!(
                            "{} reads {} but the semantics give {}\nhistory: {}\nsystem: {}",
                            refeval::show(ctx, *e),
                            gv.short(),
                            exp.short(),
                            hist.join(" ; "),
                            show_system(ctx, sys)
                        ),
                    ));
                }
            }
        }
        let _ = random_val; // (kept for symmetry with other properties)
        let reads_other = sys.states.iter().enumerate().any(|(k, s)| {
            s.next.map(|n| refeval::symbols_of(ctx, &[n]).iter().any(|x| sys.states.iter().enumerate().any(|(j, o)| j != k && o.symbol == *x))).unwrap_or(false)
        });
        if set_then_step && restore_then_step && sys.states.len() >= 2 && reads_other {
            rec.nontrivial(hash_bytes(tape));
            if rec.want_sample() {
                rec.sample(format!("{} :: {}", show_system(ctx, sys), hist.join(" ; ")));
            }
        }
        if set_then_step {
            rec.label("set-then-step");
        }
        if restore_then_step {
            rec.label("restore-then-step");
        }
        Ok(())
    }
}
