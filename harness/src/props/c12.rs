//! C12 — expression references are canonical (hash-consed) and stable under any construction history.

use crate::engine::*;
use crate::refeval::op_name;
use crate::refval::Bv;
use crate::tape::{Tape, hash_bytes};
use baa::{ArrayMutOps, ArrayValue, BitVecOps, BitVecValue, Value};
use num_bigint::BigUint;
use patronus::expr::{ArrayType, Context, Expr, ExprRef, Type, TypeCheck};
use std::collections::HashMap;

pub struct C12;

struct Model {
    by_key: HashMap<String, ExprRef>,
    by_ref: HashMap<ExprRef, (String, Type)>,
    bvs: Vec<(ExprRef, u32)>,
    arrs: Vec<(ExprRef, u32, u32)>,
    lits: Vec<(ExprRef, Bv)>,
    /// calls that can be re-issued: (key, replay closure id)
    log: Vec<Call>,
    inserted_since_start: usize,
}

#[derive(Clone, Debug)]
enum Call {
    Symbol(String, Type),
    Lit(Bv, u8),
    Un(&'static str, ExprRef),
    Bin(&'static str, ExprRef, ExprRef),
    Slice(ExprRef, u32, u32),
    Ext(bool, ExprRef, u32),
    Ite(ExprRef, ExprRef, ExprRef),
    Store(ExprRef, ExprRef, ExprRef),
    ArrConst(ExprRef, u32),
}

const NAMES: [&str; 6] = ["a", "b", "sig", "x y", "a", "mem"];

fn lit_key(v: &Bv) -> String {
    format!("lit|{}|{:x}", v.w, v.v)
}

/// Expected structural key + the call's result, given the documented builder normalisations.
/// The same call through the `Builder` facade (`Context::build`), which must hand out the very same
/// references as the direct builder methods. None for calls the facade is not used for here.
fn issue_via_builder(ctx: &mut Context, call: &Call) -> Option<ExprRef> {
    Some(match call {
        Call::Un(op, e) => {
            let (op, e) = (*op, *e);
            ctx.build(|b| if op == "not" { b.not(e) } else { b.negate(e) })
        }
        Call::Bin(op, a, b) => {
            let (op, x, y) = (*op, *a, *b);
            ctx.build(|c| match op {
                "and" => c.and(x, y),
                "or" => c.or(x, y),
                "xor" => c.xor(x, y),
                "add" => c.add(x, y),
                "sub" => c.sub(x, y),
                "mul" => c.mul(x, y),
                "shl" => c.shift_left(x, y),
                "lshr" => c.shift_right(x, y),
                "ashr" => c.arithmetic_shift_right(x, y),
                "udiv" => c.div(x, y),
                "sdiv" => c.signed_div(x, y),
                "smod" => c.signed_mod(x, y),
                "srem" => c.signed_remainder(x, y),
                "urem" => c.remainder(x, y),
                "eq" => c.equal(x, y),
                "implies" => c.implies(x, y),
                "ugt" => c.greater(x, y),
                "uge" => c.greater_or_equal(x, y),
                "sgt" => c.greater_signed(x, y),
                "sge" => c.greater_or_equal_signed(x, y),
                "concat" => c.concat(x, y),
                "read" => c.array_read(x, y),
                _ => unreachable!(),
            })
        }
        Call::Slice(e, hi, lo) => {
            let (e, hi, lo) = (*e, *hi, *lo);
            ctx.build(|c| c.slice(e, hi, lo))
        }
        Call::Ext(signed, e, by) => {
            let (signed, e, by) = (*signed, *e, *by);
            ctx.build(|mut c| if by % 2 == 0 { c.extend(e, by, signed) } else if signed { c.sign_extend(e, by) } else { c.zero_extend(e, by) })
        }
        Call::Ite(c0, a, b) => {
            let (c0, a, b) = (*c0, *a, *b);
            ctx.build(|c| c.ite(c0, a, b))
        }
        Call::Store(a, i, d) => {
            let (a, i, d) = (*a, *i, *d);
            ctx.build(|c| c.array_store(a, i, d))
        }
        Call::ArrConst(e, iw) => {
            let (e, iw) = (*e, *iw);
            ctx.build(|c| c.array_const(e, iw))
        }
        _ => return None,
    })
}

fn issue(ctx: &mut Context, call: &Call) -> Result<(ExprRef, Option<String>), PanicInfo> {
    // Returns (ref, key); key None means "normalised to an operand" (ref must equal that operand)
    guard(|| match call {
        Call::Symbol(name, tpe) => {
            let r = match tpe {
                Type::BV(w) => ctx.bv_symbol(name, *w),
                Type::Array(a) => ctx.array_symbol(name, a.index_width, a.data_width),
            };
            (r, Some(format!("sym|{}|{:?}", name, tpe)))
        }
        Call::Lit(v, route) => {
            let low64_zero = v.w > 64 && (&v.v & BigUint::from(u64::MAX)) == BigUint::from(0u32);
            let r = match route % 7 {
                6 if low64_zero => {
                    // via a shift computed by baa: x << 64 where x carries bits that are shifted out
                    let x = Bv::new(v.w, (&v.v >> 64u32) | (crate::tape::ones(v.w) << (v.w - 64)));
                    let by = Bv::from_u64(v.w, 64);
                    ctx.bv_lit(&x.to_baa().shift_left(&by.to_baa()))
                }
                0 => ctx.bv_lit(&v.to_baa()),
                1 if v.w <= 64 => ctx.bv_lit(&BitVecValue::from_u64(v.to_u64().unwrap(), v.w)),
                2 if v.v.bits() <= 128 => {
                    let x: u128 = v.v.iter_u64_digits().enumerate().fold(0u128, |acc, (i, d)| acc | ((d as u128) << (64 * i)));
                    ctx.bit_vec_val(x, v.w)
                }
                3 if v.v.bits() <= 128 => {
                    let x: u128 = v.v.iter_u64_digits().enumerate().fold(0u128, |acc, (i, d)| acc | ((d as u128) << (64 * i)));
                    ctx.bv_lit(&BitVecValue::from_u128(x, v.w))
                }
                4 => {
                    // via arithmetic: (v - 1) + 1 computed by baa, or not(not(v))
                    let one = Bv::from_u64(v.w, 1).to_baa();
                    let m1 = v.sub(&Bv::from_u64(v.w, 1)).to_baa();
                    ctx.bv_lit(&m1.add(&one))
                }
                _ => {
                    let n = v.not().to_baa();
                    ctx.bv_lit(&n.not())
                }
            };
            (r, Some(lit_key(v)))
        }
        Call::Un(op, e) => {
            let r = match *op {
                "not" => ctx.not(*e),
                _ => ctx.negate(*e),
            };
            (r, Some(format!("{}|{:?}", op, e)))
        }
        Call::Bin(op, a, b) => {
            let r = match *op {
                "and" => ctx.and(*a, *b),
                "or" => ctx.or(*a, *b),
                "xor" => ctx.xor(*a, *b),
                "add" => ctx.add(*a, *b),
                "sub" => ctx.sub(*a, *b),
                "mul" => ctx.mul(*a, *b),
                "shl" => ctx.shift_left(*a, *b),
                "lshr" => ctx.shift_right(*a, *b),
                "ashr" => ctx.arithmetic_shift_right(*a, *b),
                "udiv" => ctx.div(*a, *b),
                "sdiv" => ctx.signed_div(*a, *b),
                "smod" => ctx.signed_mod(*a, *b),
                "srem" => ctx.signed_remainder(*a, *b),
                "urem" => ctx.remainder(*a, *b),
                "eq" => ctx.equal(*a, *b),
                "implies" => ctx.implies(*a, *b),
                "ugt" => ctx.greater(*a, *b),
                "uge" => ctx.greater_or_equal(*a, *b),
                "sgt" => ctx.greater_signed(*a, *b),
                "sge" => ctx.greater_or_equal_signed(*a, *b),
                "concat" => ctx.concat(*a, *b),
                "read" => ctx.array_read(*a, *b),
                _ => unreachable!(),
            };
            (r, Some(format!("{}|{:?}|{:?}", op, a, b)))
        }
        Call::Slice(e, hi, lo) => {
            let w = e.get_bv_type(ctx).unwrap();
            let r = ctx.slice(*e, *hi, *lo);
            if *lo == 0 && *hi + 1 == w { (r, None) } else { (r, Some(format!("slice|{:?}|{}|{}", e, hi, lo))) }
        }
        Call::Ext(signed, e, by) => {
            let r = if *signed { ctx.sign_extend(*e, *by) } else { ctx.zero_extend(*e, *by) };
            if *by == 0 { (r, None) } else { (r, Some(format!("ext{}|{:?}|{}", signed, e, by))) }
        }
        Call::Ite(c, a, b) => {
            let kind = if a.get_type(ctx).is_array() { "aite" } else { "ite" };
            (ctx.ite(*c, *a, *b), Some(format!("{}|{:?}|{:?}|{:?}", kind, c, a, b)))
        }
        Call::Store(a, i, d) => {
            (ctx.array_store(*a, *i, *d), Some(format!("store|{:?}|{:?}|{:?}", a, i, d)))
        }
        Call::ArrConst(e, iw) => (ctx.array_const(*e, *iw), Some(format!("aconst|{:?}|{}", e, iw))),
    })
}

fn normalised_operand(call: &Call) -> Option<ExprRef> {
    match call {
        Call::Slice(e, _, _) | Call::Ext(_, e, _) => Some(*e),
        _ => None,
    }
}

fn expected_type(ctx: &Context, call: &Call) -> Type {
    match call {
        Call::Symbol(_, t) => *t,
        Call::Lit(v, _) => Type::BV(v.w),
        Call::Un(_, e) => e.get_type(ctx),
        Call::Bin(op, a, b) => match *op {
            "eq" | "implies" | "ugt" | "uge" | "sgt" | "sge" => Type::BV(1),
            "concat" => Type::BV(a.get_bv_type(ctx).unwrap() + b.get_bv_type(ctx).unwrap()),
            "read" => Type::BV(a.get_array_type(ctx).unwrap().data_width),
            _ => a.get_type(ctx),
        },
        Call::Slice(_, hi, lo) => Type::BV(hi - lo + 1),
        Call::Ext(_, e, by) => Type::BV(e.get_bv_type(ctx).unwrap() + by),
        Call::Ite(_, a, _) => a.get_type(ctx),
        Call::Store(a, _, _) => a.get_type(ctx),
        Call::ArrConst(e, iw) => Type::Array(ArrayType { index_width: *iw, data_width: e.get_bv_type(ctx).unwrap() }),
    }
}

/// structural read-back of a node as a key in the same format as `issue`
fn readback(ctx: &Context, r: ExprRef) -> String {
    match &ctx[r] {
        Expr::BVSymbol { name, width } => format!("sym|{}|{:?}", ctx[*name], Type::BV(*width)),
        Expr::ArraySymbol { name, index_width, data_width } => format!(
            "sym|{}|{:?}",
            ctx[*name],
            Type::Array(ArrayType { index_width: *index_width, data_width: *data_width })
        ),
        Expr::BVLiteral(v) => {
            let b = v.get(ctx);
            format!("lit|{}|{:x}", b.width(), Bv::raw_from_words(b.words()))
        }
        Expr::BVNot(e, _) => format!("not|{:?}", e),
        Expr::BVNegate(e, _) => format!("neg|{:?}", e),
        Expr::BVSlice { e, hi, lo } => format!("slice|{:?}|{}|{}", e, hi, lo),
        Expr::BVZeroExt { e, by, .. } => format!("extfalse|{:?}|{}", e, by),
        Expr::BVSignExt { e, by, .. } => format!("exttrue|{:?}|{}", e, by),
        Expr::BVIte { cond, tru, fals } => format!("ite|{:?}|{:?}|{:?}", cond, tru, fals),
        Expr::ArrayIte { cond, tru, fals } => format!("aite|{:?}|{:?}|{:?}", cond, tru, fals),
        Expr::ArrayStore { array, index, data } => format!("store|{:?}|{:?}|{:?}", array, index, data),
        Expr::ArrayConstant { e, index_width, .. } => format!("aconst|{:?}|{}", e, index_width),
        Expr::BVArrayRead { array, index, .. } => format!("read|{:?}|{:?}", array, index),
        other => {
            let name = match other {
                Expr::BVAnd(..) => "and",
                Expr::BVOr(..) => "or",
                Expr::BVXor(..) => "xor",
                Expr::BVAdd(..) => "add",
                Expr::BVSub(..) => "sub",
                Expr::BVMul(..) => "mul",
                Expr::BVShiftLeft(..) => "shl",
                Expr::BVShiftRight(..) => "lshr",
                Expr::BVArithmeticShiftRight(..) => "ashr",
                Expr::BVUnsignedDiv(..) => "udiv",
                Expr::BVSignedDiv(..) => "sdiv",
                Expr::BVSignedMod(..) => "smod",
                Expr::BVSignedRem(..) => "srem",
                Expr::BVUnsignedRem(..) => "urem",
                Expr::BVEqual(..) | Expr::ArrayEqual(..) => "eq",
                Expr::BVImplies(..) => "implies",
                Expr::BVGreater(..) => "ugt",
                Expr::BVGreaterEqual(..) => "uge",
                Expr::BVGreaterSigned(..) => "sgt",
                Expr::BVGreaterEqualSigned(..) => "sge",
                Expr::BVConcat(..) => "concat",
                _ => "?",
            };
            let ch = crate::refeval::children(other);
            format!("{}|{:?}|{:?}", name, ch[0], ch[1])
        }
    }
}

impl Model {
    fn record(&mut self, ctx: &Context, call: &Call, r: ExprRef, key: Option<String>) -> Result<(), Failure> {
        let kind = match call {
            Call::Symbol(..) => "symbol".to_string(),
            Call::Lit(v, route) => format!("literal-route{}/{}", route % 7, crate::props::c06::wclass(v.w)),
            _ => op_name(&ctx[r]).to_string(),
        };
        if let Call::Lit(v, _) = call {
            // the interned literal must hold exactly the value (no bits above the width)
            if let Expr::BVLiteral(l) = &ctx[r] {
                let b = l.get(ctx);
                let raw = Bv::raw_from_words(b.words());
                if b.width() != v.w {
                    return Err(Failure::new(
                        format!("context/literal-wrong-width/{}", crate::props::c06::wclass(v.w)),
                        format!("{:?} returned a literal of width {} (raw words {:x?})", call, b.width(), b.words()),
                    ));
                }
                if raw != v.v {
                    let route = if let Call::Lit(_, route) = call { route % 7 } else { 0 };
                    let what = if (&raw & crate::tape::ones(v.w)) == v.v { "bits-above-width" } else { "wrong-value" };
                    return Err(Failure::new(
                        format!("context/non-canonical-literal/{}/route{}/{}", what, route, crate::props::c06::wclass(v.w)),
                        format!("{:?} interned as a literal with raw words {:x?} (width {})", call, b.words(), b.width()),
                    ));
                }
            } else {
                return Err(Failure::new("context/literal-not-a-literal", format!("{:?} returned {:?}", call, ctx[r])));
            }
        }
        if let Some(k) = key.as_ref() {
            // the node that was built must be the node that was asked for (kind and operands)
            let rb = readback(ctx, r);
            if rb != *k && !matches!(call, Call::Symbol(..) | Call::Lit(..)) {
                return Err(Failure::new(
                    format!("context/built-node-differs/{}", kind),
                    format!("{:?} should build `{}` but the returned reference reads back as `{}`", call, k, rb),
                ));
            }
        }
        match key {
            None => {
                let operand = normalised_operand(call).unwrap();
                if r != operand {
                    return Err(Failure::new(
                        format!("context/normalisation/{}", kind),
                        format!("{:?} should return its operand {:?} but returned {:?}", call, operand, r),
                    ));
                }
            }
            Some(key) => {
                if let Some(prev) = self.by_key.get(&key) {
                    if *prev != r {
                        return Err(Failure::new(
                            format!("context/duplicate/{}", kind),
                            format!(
                                "{:?} (key {}) returned {:?} but the same expression was {:?} before ({} nodes inserted since)",
                                call, key, r, prev, self.inserted_since_start
                            ),
                        ));
                    }
                } else {
                    if let Some((other, _)) = self.by_ref.get(&r) {
                        return Err(Failure::new(
                            format!("context/collision/{}", kind),
                            format!("{:?} (key {}) returned {:?} which already denotes {}", call, key, r, other),
                        ));
                    }
                    let tpe = expected_type(ctx, call);
                    self.by_key.insert(key.clone(), r);
                    self.by_ref.insert(r, (key, tpe));
                    self.inserted_since_start += 1;
                    match tpe {
                        Type::BV(w) => self.bvs.push((r, w)),
                        Type::Array(a) => self.arrs.push((r, a.index_width, a.data_width)),
                    }
                    if let Call::Lit(v, _) = call {
                        self.lits.push((r, v.clone()));
                    }
                    self.log.push(call.clone());
                }
            }
        }
        Ok(())
    }

    fn audit(&self, ctx: &Context, t0: ExprRef, f0: ExprRef) -> Result<(), Failure> {
        if ctx.get_true() != t0 || ctx.get_false() != f0 {
            return Err(Failure::new("context/true-false-moved", "get_true/get_false changed"));
        }
        for (r, (key, tpe)) in self.by_ref.iter() {
            let rb = guard(|| readback(ctx, *r)).map_err(|p| {
                Failure::new(format!("context/stale-ref/{}", p.class()), format!("{:?}: {}", r, p.msg))
            })?;
            if rb != *key {
                return Err(Failure::new(
                    "context/ref-changed-meaning",
                    format!("{:?} was {} and now reads back as {}", r, key, rb),
                ));
            }
            if r.get_type(ctx) != *tpe {
                return Err(Failure::new(
                    "context/ref-changed-type",
                    format!("{:?} ({}) had type {:?}, now {:?}", r, key, tpe, r.get_type(ctx)),
                ));
            }
        }
        for (r, v) in self.lits.iter() {
            let is1 = v.w == 1 && v.v == BigUint::from(1u32);
            let is0 = v.w == 1 && v.v == BigUint::from(0u32);
            if ctx[*r].is_true() != is1 || ctx[*r].is_false() != is0 {
                return Err(Failure::new(
                    "context/is-true-false-wrong",
                    format!("literal {} : is_true={} is_false={}", v.short(), ctx[*r].is_true(), ctx[*r].is_false()),
                ));
            }
            if is1 && *r != t0 {
                return Err(Failure::new("context/true-not-unique", format!("1-bit literal 1 is {:?}, get_true is {:?}", r, t0)));
            }
            if is0 && *r != f0 {
                return Err(Failure::new("context/false-not-unique", format!("1-bit literal 0 is {:?}, get_false is {:?}", r, f0)));
            }
        }
        Ok(())
    }
}

fn gen_call(t: &mut Tape, m: &Model) -> Call {
    let pick_bv = |t: &mut Tape, m: &Model| -> (ExprRef, u32) { m.bvs[t.below(m.bvs.len() as u32) as usize] };
    let of_width = |t: &mut Tape, m: &Model, w: u32| -> Option<ExprRef> {
        let c: Vec<ExprRef> = m.bvs.iter().filter(|(_, ew)| *ew == w).map(|(e, _)| *e).collect();
        if c.is_empty() { None } else { Some(c[t.below(c.len() as u32) as usize]) }
    };
    let kind = if m.bvs.len() < 2 { t.below(2) } else { t.weighted(&[2, 4, 2, 8, 2, 2, 2, 1, 1, 4]) as u32 };
    match kind {
        0 => {
            // names: from the list, or 1-3 characters over a tiny alphabet (so that `a`, `|a|`, `a `, `"a"`
            // and the like all occur and meet each other)
            let name = if t.chance(128) {
                const ALPHA: [char; 6] = ['a', 'b', '|', ' ', '"', '\\'];
                (0..1 + t.below(3)).map(|_| ALPHA[t.below(6) as usize]).collect::<String>()
            } else {
                NAMES[t.below(NAMES.len() as u32) as usize].to_string()
            };
            let tpe = match t.below(5) {
                0 => Type::BV(1),
                1 => Type::BV(t.range(2, 8)),
                2 => Type::BV(*t.pick(&[32u32, 64, 65, 128, 129, 256, 257, 1024, 2049])),
                3 => Type::Array(ArrayType { index_width: t.range(1, 3), data_width: t.range(1, 8) }),
                _ => Type::BV(8),
            };
            Call::Symbol(name, tpe)
        }
        1 => {
            let w = match t.below(9) {
                0 => 1,
                1 => t.range(2, 8),
                2 => *t.pick(&[32u32, 63, 64]),
                3 => *t.pick(&[65u32, 127, 128]),
                4 => *t.pick(&[129u32, 192, 200]),
                // widths around and beyond the next powers of two, and any width up to 2100
                5 => *t.pick(&[255u32, 256, 257, 258, 260, 264, 300, 511, 512, 513, 600, 1023, 1024, 1025, 2047, 2048, 2049, 4096]),
                6 => t.range(201, 2100),
                7 => t.range(9, 200),
                _ => 8,
            };
            // small values are as interesting as patterned ones: they are the ones special-cased by caches
            let v = if t.chance(96) { BigUint::from(t.below(16)) } else { t.bits(w) };
            let v = if w < 4 { v & ((BigUint::from(1u32) << w) - BigUint::from(1u32)) } else { v };
            Call::Lit(Bv::new(w, v), t.byte())
        }
        2 => {
            let (e, _) = pick_bv(t, m);
            Call::Un(if t.flag() { "not" } else { "neg" }, e)
        }
        3 => {
            let (a, w) = pick_bv(t, m);
            let b = of_width(t, m, w).unwrap_or(a);
            let ops: [&'static str; 19] = [
                "and", "or", "xor", "add", "sub", "mul", "shl", "lshr", "ashr", "udiv", "sdiv", "smod", "srem",
                "urem", "eq", "ugt", "uge", "sgt", "sge",
            ];
            let op = ops[t.below(ops.len() as u32) as usize];
            if w == 1 && t.chance(40) { Call::Bin("implies", a, b) } else { Call::Bin(op, a, b) }
        }
        4 => {
            let (a, _) = pick_bv(t, m);
            let (b, _) = pick_bv(t, m);
            Call::Bin("concat", a, b)
        }
        5 => {
            let (e, w) = pick_bv(t, m);
            let (hi, lo) = if t.chance(64) {
                (w - 1, 0)
            } else {
                let lo = t.below(w);
                (lo + t.below(w - lo), lo)
            };
            Call::Slice(e, hi, lo)
        }
        6 => {
            let (e, _) = pick_bv(t, m);
            let by = if t.chance(64) { 0 } else { t.range(1, 70) };
            Call::Ext(t.flag(), e, by)
        }
        7 => {
            let c = of_width(t, m, 1);
            // array-valued if-then-else as well (its result joins the array pool, so nested array ites
            // in the then- and the else-position arise)
            if let (Some(c), true) = (c, !m.arrs.is_empty() && t.chance(110)) {
                let (a, iw, dw) = m.arrs[t.below(m.arrs.len() as u32) as usize];
                let same: Vec<ExprRef> =
                    m.arrs.iter().filter(|(_, i, d)| *i == iw && *d == dw).map(|(e, _, _)| *e).collect();
                let b = same[t.below(same.len() as u32) as usize];
                return if t.flag() { Call::Ite(c, a, b) } else { Call::Ite(c, b, a) };
            }
            let (a, w) = pick_bv(t, m);
            let b = of_width(t, m, w).unwrap_or(a);
            match c {
                Some(c) => Call::Ite(c, a, b),
                None => Call::Un("not", a),
            }
        }
        8 => {
            if !m.arrs.is_empty() && t.flag() {
                let (a, iw, dw) = m.arrs[t.below(m.arrs.len() as u32) as usize];
                match (of_width(t, m, iw), of_width(t, m, dw)) {
                    (Some(i), Some(d)) => {
                        if t.flag() { Call::Store(a, i, d) } else { Call::Bin("read", a, i) }
                    }
                    (Some(i), None) => Call::Bin("read", a, i),
                    _ => {
                        let (e, _) = pick_bv(t, m);
                        Call::ArrConst(e, t.range(1, 3))
                    }
                }
            } else {
                let (e, _) = pick_bv(t, m);
                Call::ArrConst(e, t.range(1, 3))
            }
        }
        _ => {
            // re-issue an earlier call
            if m.log.is_empty() {
                Call::Lit(Bv::from_u64(1, 0), 0)
            } else {
                // bias to old entries (rebuild after many insertions)
                let n = m.log.len() as u32;
                let i = if t.flag() { t.below(n.min(16)) } else { t.below(n) };
                let mut c = m.log[i as usize].clone();
                if let Call::Lit(v, _) = &c {
                    c = Call::Lit(v.clone(), t.byte());
                }
                c
            }
        }
    }
}

impl Prop for C12 {
    fn id(&self) -> &'static str {
        "C12"
    }
    fn fuzz_target(&self) -> Option<&'static str> {
        Some("tape")
    }
    fn rule(&self) -> String {
        "stateful, model-based (one call in five is also issued through the Context::build facade, which must return the same reference): tape-decoded histories of up to 300 Context construction calls (symbols with reused names, literals built by seven routes incl. baa add/not/shift arithmetic, every operator builder, slices/extensions with their documented normalisations, array constants/stores/reads, ite, Value::Array literals) interleaved with bulk insertions of 1k-60k fresh nodes and re-issues of earlier calls; shadow map structural-key -> ExprRef and back: known key => identical ref, new key => ref never seen before; periodic audit: every ref ever obtained reads back with the recorded structure, type and name; get_true/get_false fixed and equal to every 1-bit literal 1/0; is_true/is_false agree with the value. Non-trivial: history with a rebuild of an existing key after >= 1000 other insertions and >= 1 wide (>64 bit) literal produced by two different routes; distinct by hash of the tape.".into()
    }
    fn budget(&self, tier: Tier) -> Budget {
        match tier {
            Tier::Quick => Budget { cases: 4_800, max_tape: 2048 },
            Tier::Thorough => Budget { cases: 100_000, max_tape: 4096 },
        }
    }
    fn run_tape(&self, tape: &[u8], tier: Tier, rec: &mut Recorder) -> Result<(), Failure> {
        let mut t = Tape::new(tape);
        let mut ctx = Context::default();
        let t0 = ctx.get_true();
        let f0 = ctx.get_false();
        let mut m = Model {
            by_key: HashMap::new(),
            by_ref: HashMap::new(),
            bvs: vec![],
            arrs: vec![],
            lits: vec![],
            log: vec![],
            inserted_since_start: 0,
        };
        // the two pre-existing literals
        m.by_key.insert(lit_key(&Bv::from_u64(1, 0)), f0);
        m.by_key.insert(lit_key(&Bv::from_u64(1, 1)), t0);
        m.by_ref.insert(f0, (lit_key(&Bv::from_u64(1, 0)), Type::BV(1)));
        m.by_ref.insert(t0, (lit_key(&Bv::from_u64(1, 1)), Type::BV(1)));
        m.bvs.push((f0, 1));
        m.bvs.push((t0, 1));
        m.lits.push((f0, Bv::from_u64(1, 0)));
        m.lits.push((t0, Bv::from_u64(1, 1)));

        let n_calls = 8 + t.below(if tier == Tier::Quick { 200 } else { 300 });
        let mut filler_total = 0usize;
        let mut rebuild_after_filler = false;
        let mut wide_two_routes = false;
        let mut wide_routes: HashMap<String, std::collections::HashSet<u8>> = HashMap::new();
        rec.eval();
        for step in 0..n_calls {
            // bulk filler
            if t.chance(6) && filler_total < 130_000 {
                let n = 1000 + (t.below(60) as usize) * 1000;
                let base = (filler_total as u64) << 8;
                let r = guard(|| {
                    let mut prev = ctx.bv_symbol("filler", 40);
                    for i in 0..n {
                        let l = ctx.bv_lit(&BitVecValue::from_u64(base + i as u64 + 0x1_0000_0000, 40));
                        if i % 3 == 0 {
                            prev = ctx.add(prev, l);
                        }
                    }
                    prev
                });
                if let Err(p) = r {
                    return Err(Failure::new(format!("context/filler/{}", p.class()), p.msg));
                }
                filler_total += n;
                rec.label("bulk-insertions");
                continue;
            }
            // Value::Array literal route
            if t.chance(5) {
                let iw = t.range(1, 3);
                let dw = t.range(1, 8);
                let def = Bv::new(dw, t.bits(dw));
                let mut a = ArrayValue::new_sparse(iw, &def.to_baa());
                let idx = Bv::new(iw, t.bits(iw));
                let dat = Bv::new(dw, t.bits(dw));
                a.store(&idx.to_baa(), &dat.to_baa());
                let r1 = guard(|| ctx.lit(Value::Array(a.clone())));
                let r2 = guard(|| ctx.lit(Value::Array(a.clone())));
                match (r1, r2) {
                    (Ok(x), Ok(y)) => {
                        if x != y {
                            return Err(Failure::new("context/duplicate/array-literal", format!("{:?} vs {:?}", x, y)));
                        }
                        // structure: store(const(def), idx, dat) or const(def) when dat == def
                        let dl = ctx.bv_lit(&def.to_baa());
                        let base = ctx.array_const(dl, iw);
                        let expect = if dat == def {
                            base
                        } else {
                            let il = ctx.bv_lit(&idx.to_baa());
                            let dd = ctx.bv_lit(&dat.to_baa());
                            ctx.array_store(base, il, dd)
                        };
                        if x != expect {
                            return Err(Failure::new("context/array-literal-structure", format!("{:?} vs {:?}", x, expect)));
                        }
                        rec.label("array-value-literal");
                    }
                    (Err(p), _) | (_, Err(p)) => {
                        return Err(Failure::new(format!("context/array-literal/{}", p.class()), p.msg));
                    }
                }
                continue;
            }
            let call = gen_call(&mut t, &m);
            let is_reissue = match &call {
                Call::Lit(v, _) => m.by_key.contains_key(&lit_key(v)),
                _ => false,
            };
            let before = m.by_key.len();
            // one call in five is also made through the Builder facade: same reference expected
            if t.chance(50) {
                let direct = issue(&mut ctx, &call);
                let facade = guard(|| issue_via_builder(&mut ctx, &call));
                if let (Ok((d, _)), Ok(Some(f))) = (&direct, &facade) {
                    rec.label("route:builder-facade");
                    if d != f {
                        return Err(Failure::new(
                            "context/builder-facade-differs",
                            format!("{:?}: direct call gives {:?}, Context::build gives {:?}", call, d, f),
                        ));
                    }
                }
            }
            let (r, key) = match issue(&mut ctx, &call) {
                Ok(x) => x,
                Err(p) => {
                    return Err(Failure::new(
                        format!("context/builder/{}", p.class()),
                        format!("{:?} panicked: {}:{} {}", call, p.file, p.line, p.msg),
                    ));
                }
            };
            if let (Call::Lit(v, route), true) = (&call, true) {
                if v.w > 64 {
                    let e = wide_routes.entry(lit_key(v)).or_default();
                    e.insert(route % 7);
                    if e.len() >= 2 {
                        wide_two_routes = true;
                    }
                }
            }
            let known_key = key.as_ref().map(|k| m.by_key.contains_key(k)).unwrap_or(false);
            if let Err(f) = m.record(&ctx, &call, r, key) {
                if f.sig.starts_with("context/non-canonical-literal/") && rec.tolerate("C12", &f) {
                    continue; // listed finding: counted, the history goes on without this reference
                }
                return Err(f);
            }
            if (known_key || is_reissue) && filler_total >= 1000 && m.by_key.len() == before {
                rebuild_after_filler = true;
            }
            if step % 64 == 63 {
                m.audit(&ctx, t0, f0)?;
            }
        }
        m.audit(&ctx, t0, f0)?;
        rec.label(&format!("calls:{}", if n_calls < 50 { "<50" } else if n_calls < 150 { "50-149" } else { ">=150" }));
        if rebuild_after_filler && wide_two_routes {
            rec.nontrivial(hash_bytes(tape));
            if rec.want_sample() {
                let tail: Vec<String> = m.log.iter().rev().take(6).map(|c| format!("{:?}", c)).collect();
                rec.sample(format!(
                    "{} calls, {} distinct nodes, {} filler nodes; last new calls: {}",
                    n_calls,
                    m.by_key.len(),
                    filler_total,
                    tail.join("; ")
                ));
            }
        }
        if rebuild_after_filler {
            rec.label("rebuild-after->=1000-insertions");
        }
        if wide_two_routes {
            rec.label("wide-literal-two-routes");
        }
        Ok(())
    }
}
