//! C11 — system-level transformations (simplify_expressions, replace_anonymous_inputs_with_zero)
//! preserve observable behaviour.

use crate::engine::*;
use crate::gen_sys::{SysCfg, gen_system, show_system};
use crate::refeval::{self, Env, reachable};
use crate::refsim::RefSim;
use crate::refval::Val;
use crate::sysutil::{compare_positional, positional_symbols, random_val};
use crate::tape::{SplitMix, Tape, hash_bytes};
use patronus::expr::{Context, ExprRef, TypeCheck};
use patronus::system::TransitionSystem;
use patronus::system::transform::{replace_anonymous_inputs_with_zero, simplify_expressions};

pub struct C11;

fn roots_of(sys: &TransitionSystem) -> Vec<(String, ExprRef)> {
    let mut v = vec![];
    for (k, o) in sys.outputs.iter().enumerate() {
        v.push((format!("output {}", k), o.expr));
    }
    for (k, b) in sys.bad_states.iter().enumerate() {
        v.push((format!("bad {}", k), *b));
    }
    for (k, c) in sys.constraints.iter().enumerate() {
        v.push((format!("constraint {}", k), *c));
    }
    for (k, s) in sys.states.iter().enumerate() {
        if let Some(i) = s.init {
            v.push((format!("init {}", k), i));
        }
        if let Some(n) = s.next {
            v.push((format!("next {}", k), n));
        }
    }
    v
}

/// lock-step run of both systems in the reference simulator
fn lockstep(ctx: &Context, a: &TransitionSystem, b: &TransitionSystem, rng: &mut SplitMix, steps: u32) -> Result<(), String> {
    let sa = RefSim::new(ctx, a);
    let sb = RefSim::new(ctx, b);
    let free: Vec<Val> = sa.state_types.iter().map(|t| random_val(rng, *t)).collect();
    let mut first: Option<Vec<Val>> = Some(sa.input_types.iter().map(|t| random_val(rng, *t)).collect());
    let mut xa = sa.initial(&free, first.as_ref().unwrap())?;
    let mut xb = sb.initial(&free, first.as_ref().unwrap())?;
    for step in 0..steps {
        let inputs: Vec<Val> = match first.take() {
            Some(f) => f,
            None => sa.input_types.iter().map(|t| random_val(rng, *t)).collect(),
        };
        for (k, (va, vb)) in xa.iter().zip(xb.iter()).enumerate() {
            if !va.sem_eq(vb) {
                return Err(format!("step {}: state {} is {} vs {}", step, k, va.short(), vb.short()));
            }
        }
        let oa = sa.observe(&xa, &inputs)?;
        let ob = sb.observe(&xb, &inputs)?;
        if oa.constraints_ok != ob.constraints_ok || oa.bads != ob.bads {
            return Err(format!("step {}: constraints/bads differ: {:?} vs {:?}", step, oa, ob));
        }
        for (k, (x, y)) in a.outputs.iter().zip(b.outputs.iter()).enumerate() {
            let va = sa.eval(&xa, &inputs, x.expr)?;
            let vb = sb.eval(&xb, &inputs, y.expr)?;
            if !va.sem_eq(&vb) {
                return Err(format!("step {}: output {} is {} vs {}", step, k, va.short(), vb.short()));
            }
        }
        let nfree: Vec<Val> = sa.state_types.iter().map(|t| random_val(rng, *t)).collect();
        xa = sa.next(&xa, &inputs, &nfree)?;
        xb = sb.next(&xb, &inputs, &nfree)?;
    }
    Ok(())
}

impl Prop for C11 {
    fn id(&self) -> &'static str {
        "C11"
    }
    fn fuzz_target(&self) -> Option<&'static str> {
        Some("tape")
    }
    fn rule(&self) -> String {
        "generated transition systems (arrays, shared sub-expressions between init/next/bad/constraint/output, labels aliasing states/inputs, debug names on intermediate nodes, some inputs named _input_N/_state_N). simplify_expressions: same input and state symbols in the same order; every init/next/output/bad/constraint is reference-evaluator-equal before/after (all assignments when <= 14 symbol bits, else 48 samples); 4-step lock-step run of both systems in the reference simulator with random inputs; every debug name still present is attached to a node equivalent to the one it named. replace_anonymous_inputs_with_zero: the anonymous inputs are gone from `inputs`, no expression mentions them, every function equals the original with those inputs fixed to zero. In 31% of the cases one or two further transformations are applied to the result (a history on one system), each judged against its own input. Non-trivial: >= 1 root changed by the transformation and >= 1 non-leaf sub-expression shared between two roots; distinct by hash of the system text.".into()
    }
    fn budget(&self, tier: Tier) -> Budget {
        match tier {
            Tier::Quick => Budget { cases: 30_000, max_tape: 640 },
            Tier::Thorough => Budget { cases: 800_000, max_tape: 1024 },
        }
    }
    fn run_tape(&self, tape: &[u8], _tier: Tier, rec: &mut Recorder) -> Result<(), Failure> {
        let mut t = Tape::new(tape);
        let which = t.below(3); // 0,1: simplify  2: anonymous inputs
        let cfg = SysCfg {
            max_state_bits: 10,
            max_input_bits: 6,
            anon_inputs: which == 2 || t.chance(40),
            divrem: true,
            many_outputs: true,
            ..SysCfg::default()
        };
        let mut case = gen_system(&mut t, &cfg);
        let orig = case.sys.clone();
        let ctx = &mut case.ctx;
        rec.eval();
        let mut rng = SplitMix(hash_bytes(tape));
        let text = show_system(ctx, &orig);
        let syms = positional_symbols(&orig);
        let (envs, _) = crate::sysutil::environments_for(ctx, &syms, &orig.get_all_exprs(), &mut rng, 14, 48);

        // shared non-leaf sub-expression between two roots?
        let roots = roots_of(&orig);
        let shared = {
            let sets: Vec<rustc_hash::FxHashSet<ExprRef>> = roots
                .iter()
                .map(|(_, r)| reachable(ctx, &[*r]).into_iter().filter(|e| !ctx[*e].is_symbol() && !ctx[*e].is_bv_lit()).collect())
                .collect();
            let mut s = false;
            'o: for i in 0..sets.len() {
                for j in (i + 1)..sets.len() {
                    if sets[i].intersection(&sets[j]).next().is_some() {
                        s = true;
                        break 'o;
                    }
                }
            }
            s
        };

        // a history on one system: up to three transformations in a row, each judged against its input
        let mut cur = orig.clone();
        let stages = 1 + if t.chance(80) { 1 + t.below(2) } else { 0 };
        for k in 0..stages {
            let w = if k == 0 { which } else { t.below(3) };
            if k > 0 {
                rec.label("history:further-transformation-on-the-result");
            }
            cur = stage(ctx, &cur, w, &envs, &mut rng, rec, shared)?;
        }
        Ok(())
    }
}

/// One transformation applied to `orig`, judged against `orig`; returns the transformed system so that a
/// further transformation can be applied to it (a history on one system).
#[allow(clippy::too_many_arguments)]
fn stage(
    ctx: &mut Context,
    orig: &TransitionSystem,
    which: u32,
    envs: &[Env],
    rng: &mut SplitMix,
    rec: &mut Recorder,
    shared: bool,
) -> Result<TransitionSystem, Failure> {
    let text = show_system(ctx, orig);
    let orig = orig.clone();
        if which < 2 {
            rec.label("transform:simplify_expressions");
            let mut sys = orig.clone();
            if let Err(p) = guard(|| simplify_expressions(ctx, &mut sys)) {
                // simplifier panics are C01/C13 findings (same signatures there); classify likewise
                return Err(Failure::new(
                    format!("sys-transform/simplify/{}", p.class()),
                    format!("panic {}:{} {}\n{}", p.file, p.line, p.msg, text),
                ));
            }
            if sys.inputs != orig.inputs {
                return Err(Failure::new("sys-transform/simplify/inputs-changed", text));
            }
            for (k, (a, b)) in orig.states.iter().zip(sys.states.iter()).enumerate() {
                if a.symbol != b.symbol {
                    return Err(Failure::new("sys-transform/simplify/state-symbol-changed", format!("state {}\n{}", k, text)));
                }
            }
            if let Err(m) = compare_positional(ctx, &orig, &sys, &envs) {
                return Err(Failure::new(
                    format!("sys-transform/simplify/{}", m.kind),
                    format!("{}\noriginal: {}\nresult: {}", m.msg, text, show_system(ctx, &sys)),
                ));
            }
            if let Err(m) = lockstep(ctx, &orig, &sys, rng, 4) {
                return Err(Failure::new(
                    "sys-transform/simplify/lockstep-diverges",
                    format!("{}\noriginal: {}\nresult: {}", m, text, show_system(ctx, &sys)),
                ));
            }
            // names: every name of the result existed before and names an equivalent node
            let old_named: Vec<ExprRef> = {
                use patronus::expr::ExprMap;
                orig.names.non_default_value_keys().collect()
            };
            let new_named: Vec<ExprRef> = {
                use patronus::expr::ExprMap;
                sys.names.non_default_value_keys().collect()
            };
            for e in new_named {
                let name = sys.names[e].unwrap();
                let Some(old) = old_named.iter().copied().find(|o| orig.names[*o] == Some(name)) else {
                    return Err(Failure::new(
                        "sys-transform/simplify/name-invented",
                        format!("name {} appears on {} after the transformation\n{}", ctx[name], refeval::show(ctx, e), text),
                    ));
                };
                if old == e {
                    continue;
                }
                if old.get_type(ctx) != e.get_type(ctx) {
                    return Err(Failure::new("sys-transform/simplify/name-moved-to-other-type", text.clone()));
                }
                for env in envs.iter().take(16) {
                    let mut env2: Env = env.clone();
                    // named nodes may mention symbols that are not system symbols? no: all are
                    let va = refeval::eval(ctx, &env2, old);
                    let vb = refeval::eval(ctx, &env2, e);
                    env2.clear();
                    if let (Ok(va), Ok(vb)) = (va, vb) {
                        if !va.sem_eq(&vb) {
                            return Err(Failure::new(
                                "sys-transform/simplify/name-on-non-equivalent-node",
                                format!(
                                    "name {} moved from {} to {} which is not equivalent\n{}",
                                    ctx[name],
                                    refeval::show(ctx, old),
                                    refeval::show(ctx, e),
                                    text
                                ),
                            ));
                        }
                    }
                }
            }
            let changed = roots_of(&orig).iter().zip(roots_of(&sys).iter()).any(|(a, b)| a.1 != b.1);
            if changed && shared {
                rec.nontrivial(hash_bytes(text.as_bytes()));
                if rec.want_sample() {
                    rec.sample(format!("simplify: {}  ==>  {}", text, show_system(ctx, &sys)));
                }
            }
            Ok(sys)
        } else {
            rec.label("transform:replace_anonymous_inputs_with_zero");
            let mut sys = orig.clone();
            if let Err(p) = guard(|| replace_anonymous_inputs_with_zero(ctx, &mut sys)) {
                return Err(Failure::new(
                    format!("sys-transform/anon/{}", p.class()),
                    format!("panic {}:{} {}\n{}", p.file, p.line, p.msg, text),
                ));
            }
            let is_anon = |ctx: &Context, i: ExprRef| {
                let n = ctx.get_symbol_name(i).unwrap();
                n.starts_with("_input") || n.starts_with("_state")
            };
            let anon: Vec<ExprRef> = orig.inputs.iter().copied().filter(|i| is_anon(ctx, *i)).collect();
            let kept: Vec<ExprRef> = orig.inputs.iter().copied().filter(|i| !is_anon(ctx, *i)).collect();
            if sys.inputs != kept {
                return Err(Failure::new(
                    "sys-transform/anon/wrong-input-list",
                    format!("inputs after removal: {:?}, expected the {} named inputs in order\n{}", sys.inputs.len(), kept.len(), text),
                ));
            }
            let new_roots = roots_of(&sys);
            let old_roots = roots_of(&orig);
            if new_roots.len() != old_roots.len() || sys.states.len() != orig.states.len() {
                return Err(Failure::new("sys-transform/anon/root-count", text));
            }
            for (k, (a, b)) in orig.states.iter().zip(sys.states.iter()).enumerate() {
                if a.symbol != b.symbol {
                    return Err(Failure::new("sys-transform/anon/state-symbol-changed", format!("state {}\n{}", k, text)));
                }
            }
            let all_new: Vec<ExprRef> = new_roots.iter().map(|r| r.1).collect();
            for s in refeval::symbols_of(ctx, &all_new) {
                if anon.contains(&s) {
                    return Err(Failure::new(
                        "sys-transform/anon/removed-input-still-used",
                        format!("{} still occurs\noriginal: {}\nresult: {}", refeval::show(ctx, s), text, show_system(ctx, &sys)),
                    ));
                }
            }
            if let Err(m) = refeval::deep_type_check(ctx, &all_new) {
                return Err(Failure::new("sys-transform/anon/ill-typed", format!("{}\n{}", m, text)));
            }
            for env in envs.iter() {
                let mut ea = env.clone();
                for a in anon.iter() {
                    ea.insert(*a, crate::refsim::decode_value_zero(a.get_type(ctx)));
                }
                let mut eb = ea.clone();
                for a in anon.iter() {
                    eb.remove(a);
                }
                for ((what, x), (_, y)) in old_roots.iter().zip(new_roots.iter()) {
                    let va = refeval::eval(ctx, &ea, *x).map_err(|m| Failure::new("harness/c11", m))?;
                    let vb = match refeval::eval(ctx, &eb, *y) {
                        Ok(v) => v,
                        Err(m) => {
                            return Err(Failure::new("sys-transform/anon/foreign-symbol", format!("{}: {}\n{}", what, m, text)));
                        }
                    };
                    if !va.sem_eq(&vb) {
                        return Err(Failure::new(
                            "sys-transform/anon/wrong-value",
                            format!(
                                "{}: original with anonymous inputs at zero = {} but result = {}\noriginal: {}\nresult: {}",
                                what,
                                va.short(),
                                vb.short(),
                                text,
                                show_system(ctx, &sys)
                            ),
                        ));
                    }
                }
            }
            if !anon.is_empty() {
                rec.label("anon:some-removed");
            }
            let changed = old_roots.iter().zip(new_roots.iter()).any(|(a, b)| a.1 != b.1);
            if changed && shared {
                rec.nontrivial(hash_bytes(text.as_bytes()));
                if rec.want_sample() {
                    rec.sample(format!("anon->0: {}  ==>  {}", text, show_system(ctx, &sys)));
                }
            }
            Ok(sys)
        }
}
