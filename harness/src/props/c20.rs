//! C20 — value summaries denote a total function (guards pairwise disjoint and jointly exhaustive)
//! and new/apply_bin_op/apply_ite/coalesce/import_into_guard/expr_to_guard preserve it.
//! Observes entries and guards through the `verif-hooks` feature of patronus-dse.

use crate::engine::*;
use crate::refeval::{self, Env};
use crate::refval::{Bv, Val};
use crate::tape::{Tape, hash_bytes};
use patronus::expr::{Context, ExprRef, TypeCheck};
use patronus_dse::{GuardCtx, ValueSummary};
use std::collections::HashMap;

pub struct C20;

struct Slot {
    vs: ValueSummary<ExprRef>,
    /// shadow denotation: a plain expression whose value under a valuation is the summary's value
    denote: ExprRef,
    width: u32,
}

struct World {
    ctx: Context,
    gc: GuardCtx,
    bools: Vec<ExprRef>,
    datas: Vec<ExprRef>,
    symbols: Vec<ExprRef>,
    has_complex_terminal: bool,
}

fn gen_bool_expr(w: &mut World, t: &mut Tape, depth: u32) -> ExprRef {
    if depth == 0 || t.chance(90) {
        return match t.weighted(&[10, 1, 2]) {
            0 => w.bools[t.below(w.bools.len() as u32) as usize],
            1 => {
                if t.flag() { w.ctx.get_true() } else { w.ctx.get_false() }
            }
            _ => {
                // terminal with non-Boolean children (real guards contain comparisons of data)
                w.has_complex_terminal = true;
                let a = w.datas[t.below(w.datas.len() as u32) as usize];
                let same: Vec<ExprRef> =
                    w.datas.iter().copied().filter(|d| d.get_type(&w.ctx) == a.get_type(&w.ctx)).collect();
                let b = same[t.below(same.len() as u32) as usize];
                match t.below(3) {
                    0 => w.ctx.equal(a, b),
                    1 => w.ctx.greater(a, b),
                    _ => {
                        let wd = a.get_bv_type(&w.ctx).unwrap();
                        let l = w.ctx.bv_lit(&Bv::new(wd, t.bits(wd)).to_baa());
                        w.ctx.greater_or_equal(a, l)
                    }
                }
            }
        };
    }
    let a = gen_bool_expr(w, t, depth - 1);
    match t.below(9) {
        0 => w.ctx.not(a),
        // every Boolean-typed operator may sit over Boolean (1-bit) operands: comparisons too
        7 => {
            let b = gen_bool_expr(w, t, depth - 1);
            match t.below(4) {
                0 => w.ctx.greater(a, b),
                1 => w.ctx.greater_or_equal(a, b),
                2 => w.ctx.greater_signed(a, b),
                _ => w.ctx.greater_or_equal_signed(a, b),
            }
        }
        8 => {
            // 1-bit arithmetic and structure: add/sub are xor, mul is and, slice/concat of one bit
            let b = gen_bool_expr(w, t, depth - 1);
            match t.below(4) {
                0 => w.ctx.add(a, b),
                1 => w.ctx.sub(a, b),
                2 => w.ctx.mul(a, b),
                _ => {
                    let c = w.ctx.concat(a, b);
                    let k = t.below(2);
                    w.ctx.slice(c, k, k)
                }
            }
        }
        1 => {
            let b = gen_bool_expr(w, t, depth - 1);
            w.ctx.and(a, b)
        }
        2 => {
            let b = gen_bool_expr(w, t, depth - 1);
            w.ctx.or(a, b)
        }
        3 => {
            let b = gen_bool_expr(w, t, depth - 1);
            w.ctx.xor(a, b)
        }
        4 => {
            let b = gen_bool_expr(w, t, depth - 1);
            w.ctx.implies(a, b)
        }
        5 => {
            // Boolean ite / iff: become terminals with Boolean children
            let b = gen_bool_expr(w, t, depth - 1);
            let c = gen_bool_expr(w, t, depth - 1);
            w.ctx.ite(a, b, c)
        }
        _ => {
            let b = gen_bool_expr(w, t, depth - 1);
            w.ctx.equal(a, b)
        }
    }
}

fn all_envs(w: &World) -> Vec<Env> {
    let total: u32 = w.symbols.iter().map(|s| s.get_bv_type(&w.ctx).unwrap()).sum();
    let mut out = vec![];
    for v in 0..(1u64 << total) {
        let mut env = Env::default();
        let mut rest = v;
        for s in w.symbols.iter() {
            let wd = s.get_bv_type(&w.ctx).unwrap();
            env.insert(*s, Val::Bv(Bv::from_u64(wd, rest & ((1 << wd) - 1))));
            rest >>= wd;
        }
        out.push(env);
    }
    out
}

fn terminal_valuation(w: &World, env: &Env) -> Result<HashMap<ExprRef, bool>, String> {
    let mut m = HashMap::new();
    for tsym in w.gc.verif_terminals() {
        let v = refeval::eval(&w.ctx, env, tsym)?;
        m.insert(tsym, v.bv().is_true());
    }
    Ok(m)
}

/// partition + denotation invariant of one summary under every valuation
fn check_summary(w: &World, s: &Slot, envs: &[Env], what: &str, hist: &[String]) -> Result<(), Failure> {
    let entries = s.vs.verif_entries();
    if entries.is_empty() {
        return Err(Failure::new(format!("value-summary/{}/no-entries", what), hist.join(" ; ")));
    }
    for (_, v) in entries.iter() {
        if v.get_bv_type(&w.ctx) != Some(s.width) {
            return Err(Failure::new(
                format!("value-summary/{}/entry-type", what),
                format!("entry value {} has the wrong type\n{}", refeval::show(&w.ctx, *v), hist.join(" ; ")),
            ));
        }
    }
    for env in envs {
        let tv = terminal_valuation(w, env).map_err(|m| Failure::new("harness/c20", m))?;
        let sel: Vec<usize> =
            (0..entries.len()).filter(|i| w.gc.verif_eval(entries[*i].0, &tv)).collect();
        if sel.len() != 1 {
            let kind = if sel.is_empty() { "not-exhaustive" } else { "overlapping-guards" };
            return Err(Failure::new(
                format!("value-summary/{}/{}", what, kind),
                format!(
                    "{} of {} entries are enabled under {}\nentries: {:?}\nhistory: {}",
                    sel.len(),
                    entries.len(),
                    crate::props::c01::show_env(&w.ctx, env),
                    entries.iter().map(|(_, v)| refeval::show(&w.ctx, *v)).collect::<Vec<_>>(),
                    hist.join(" ; ")
                ),
            ));
        }
        let got = refeval::eval(&w.ctx, env, entries[sel[0]].1).map_err(|m| Failure::new("harness/c20", m))?;
        let exp = refeval::eval(&w.ctx, env, s.denote).map_err(|m| Failure::new("harness/c20", m))?;
        if !got.sem_eq(&exp) {
            return Err(Failure::new(
                format!("value-summary/{}/wrong-value", what),
                format!(
                    "selected entry {} = {} but the operation applied to the arguments gives {} under {}\nhistory: {}",
                    refeval::show(&w.ctx, entries[sel[0]].1),
                    got.short(),
                    exp.short(),
                    crate::props::c01::show_env(&w.ctx, env),
                    hist.join(" ; ")
                ),
            ));
        }
    }
    Ok(())
}

type BinOp = fn(&mut Context, ExprRef, ExprRef) -> ExprRef;
fn op_and(c: &mut Context, a: ExprRef, b: ExprRef) -> ExprRef {
    c.and(a, b)
}
fn op_or(c: &mut Context, a: ExprRef, b: ExprRef) -> ExprRef {
    c.or(a, b)
}
fn op_xor(c: &mut Context, a: ExprRef, b: ExprRef) -> ExprRef {
    c.xor(a, b)
}
fn op_add(c: &mut Context, a: ExprRef, b: ExprRef) -> ExprRef {
    c.add(a, b)
}
fn op_sub(c: &mut Context, a: ExprRef, b: ExprRef) -> ExprRef {
    c.sub(a, b)
}

impl Prop for C20 {
    fn id(&self) -> &'static str {
        "C20"
    }
    fn fuzz_target(&self) -> Option<&'static str> {
        Some("tape")
    }
    fn rule(&self) -> String {
        "stateful: 2-5 Boolean terminals (1-bit symbols; with lower weight comparisons of 2-3-bit data symbols and Boolean ite/iff, which real guards contain) and 2 data symbols; a history of <= 12 operations new / apply_bin_op (and/or/xor/add/sub, incl. operands sharing guards) / apply_ite / coalesce / import_into_guard building summaries, plus expr_to_guard of generated Boolean expressions. Through the verif-hooks accessors, for EVERY valuation of the underlying symbols (exhaustive, <= 2^11): exactly one entry guard is true; the selected entry's value (reference evaluator) equals the operation applied to the arguments' denotations (shadow denotation expression carried per summary); coalesce leaves no two entries with the same value; import_into_guard leaves <= 2 entries with values true/false; expr_to_guard(e) evaluates like e. Non-trivial: history with an apply_ite, a cross-product apply_bin_op (no common guard) and a coalesce that merges >= 2 entries; distinct by hash of the tape.".into()
    }
    fn assumptions(&self) -> Vec<String> {
        vec!["boolean_expression's BDD evaluate() is trusted to evaluate a guard under a terminal valuation".into()]
    }
    fn budget(&self, tier: Tier) -> Budget {
        match tier {
            Tier::Quick => Budget { cases: 24_000, max_tape: 512 },
            Tier::Thorough => Budget { cases: 500_000, max_tape: 768 },
        }
    }
    fn run_tape(&self, tape: &[u8], _tier: Tier, rec: &mut Recorder) -> Result<(), Failure> {
        let mut t = Tape::new(tape);
        let mut ctx = Context::default();
        let nb = t.range(2, 5);
        let bools: Vec<ExprRef> = (0..nb).map(|k| ctx.bv_symbol(&format!("t{}", k), 1)).collect();
        let dw = t.range(2, 3);
        let datas: Vec<ExprRef> = (0..2).map(|k| ctx.bv_symbol(&format!("d{}", k), dw)).collect();
        let mut symbols = bools.clone();
        symbols.extend(datas.iter());
        let mut w = World { ctx, gc: GuardCtx::default(), bools, datas, symbols, has_complex_terminal: false };
        let envs = all_envs(&w);
        rec.eval();
        let mut hist: Vec<String> = vec![];
        let mut pool: Vec<Slot> = vec![];
        let mut did_ite = false;
        let mut did_cross = false;
        let mut did_merge = false;
        let n_ops = 3 + t.below(12);
        for _ in 0..n_ops {
            let op = if pool.len() < 2 { if t.chance(96) { 6 } else { 0 } } else { t.weighted(&[3, 5, 4, 3, 2, 2, 3]) };
            match op {
                0 => {
                    // new
                    let (v, width) = if t.flag() {
                        (gen_bool_expr(&mut w, &mut t, 2), 1)
                    } else {
                        let d = match t.below(3) {
                            0 => w.datas[0],
                            1 => w.datas[1],
                            _ => w.ctx.bv_lit(&Bv::new(dw, t.bits(dw)).to_baa()),
                        };
                        (d, dw)
                    };
                    hist.push(format!("new({})", refeval::show(&w.ctx, v)));
                    let vs = ValueSummary::new(&mut w.gc, v);
                    pool.push(Slot { vs, denote: v, width });
                }
                1 => {
                    // apply_bin_op on two summaries of the same width
                    let i = t.below(pool.len() as u32) as usize;
                    let a = pool.remove(i);
                    let Some(j) = pool.iter().position(|s| s.width == a.width) else {
                        pool.push(a);
                        continue;
                    };
                    let b = pool.remove(j);
                    let (name, f): (&str, BinOp) = if a.width == 1 {
                        match t.below(3) {
                            0 => ("and", op_and),
                            1 => ("or", op_or),
                            _ => ("xor", op_xor),
                        }
                    } else if t.flag() {
                        ("add", op_add)
                    } else {
                        ("sub", op_sub)
                    };
                    let ga: Vec<usize> = a.vs.verif_entries().iter().map(|e| e.0).collect();
                    let gb: Vec<usize> = b.vs.verif_entries().iter().map(|e| e.0).collect();
                    let common = ga.iter().any(|g| gb.contains(g));
                    if !common && ga.len() >= 2 && gb.len() >= 2 {
                        did_cross = true;
                    }
                    hist.push(format!("apply_bin_op({}, #{}entries, #{}entries{})", name, ga.len(), gb.len(), if common { ", common guards" } else { "" }));
                    let denote = f(&mut w.ctx, a.denote, b.denote);
                    let width = a.width;
                    let r = guard(|| ValueSummary::apply_bin_op(&mut w.ctx, &mut w.gc, f, a.vs, b.vs));
                    match r {
                        Ok(vs) => {
                            let s = Slot { vs, denote, width };
                            check_summary(&w, &s, &envs, &format!("apply_bin_op{}", if common { "/common-guards" } else { "" }), &hist)?;
                            pool.push(s);
                        }
                        Err(p) => {
                            return Err(Failure::new(
                                format!("value-summary/apply_bin_op/{}", p.class()),
                                format!("panic {}:{} {}\n{}", p.file, p.line, p.msg, hist.join(" ; ")),
                            ));
                        }
                    }
                }
                2 => {
                    // apply_ite(cond bool summary, tru, fals)
                    let Some(ci) = pool.iter().position(|s| s.width == 1) else { continue };
                    let c = pool.remove(ci);
                    if pool.is_empty() {
                        pool.push(c);
                        continue;
                    }
                    let i = t.below(pool.len() as u32) as usize;
                    let a = pool.remove(i);
                    let Some(j) = pool.iter().position(|s| s.width == a.width) else {
                        pool.push(c);
                        pool.push(a);
                        continue;
                    };
                    let b = pool.remove(j);
                    hist.push(format!(
                        "apply_ite(#{}, #{}, #{})",
                        c.vs.verif_entries().len(),
                        a.vs.verif_entries().len(),
                        b.vs.verif_entries().len()
                    ));
                    let denote = w.ctx.ite(c.denote, a.denote, b.denote);
                    let width = a.width;
                    let r = guard(|| ValueSummary::apply_ite(&mut w.ctx, &mut w.gc, c.vs, a.vs, b.vs));
                    match r {
                        Ok(vs) => {
                            did_ite = true;
                            let s = Slot { vs, denote, width };
                            check_summary(&w, &s, &envs, "apply_ite", &hist)?;
                            pool.push(s);
                        }
                        Err(p) => {
                            let sig = if p.file.ends_with("expr/traversal.rs") || p.file.ends_with("value_summary.rs") && p.msg.contains("children") {
                                "value-summary/expr_to_guard/terminal-with-non-boolean-children".to_string()
                            } else {
                                format!("value-summary/apply_ite/{}", p.class())
                            };
                            return Err(Failure::new(sig, format!("panic {}:{} {}\n{}", p.file, p.line, p.msg, hist.join(" ; "))));
                        }
                    }
                }
                3 => {
                    let i = t.below(pool.len() as u32) as usize;
                    let before = pool[i].vs.len();
                    hist.push(format!("coalesce(#{})", before));
                    let mut s = pool.remove(i);
                    if let Err(p) = guard(|| s.vs.coalesce(&mut w.gc)) {
                        return Err(Failure::new(format!("value-summary/coalesce/{}", p.class()), format!("{}\n{}", p.msg, hist.join(" ; "))));
                    }
                    let entries = s.vs.verif_entries();
                    for x in 0..entries.len() {
                        for y in (x + 1)..entries.len() {
                            if entries[x].1 == entries[y].1 {
                                return Err(Failure::new(
                                    "value-summary/coalesce/duplicate-value-left",
                                    format!("two entries hold {}\n{}", refeval::show(&w.ctx, entries[x].1), hist.join(" ; ")),
                                ));
                            }
                        }
                    }
                    if before >= entries.len() + 1 {
                        did_merge = true;
                    }
                    check_summary(&w, &s, &envs, "coalesce", &hist)?;
                    pool.push(s);
                }
                4 => {
                    let Some(i) = pool.iter().position(|s| s.width == 1) else { continue };
                    hist.push(format!("import_into_guard(#{})", pool[i].vs.len()));
                    let mut s = pool.remove(i);
                    if let Err(p) = guard(|| s.vs.import_into_guard(&mut w.ctx, &mut w.gc)) {
                        let sig = if p.file.ends_with("expr/traversal.rs") {
                            "value-summary/expr_to_guard/terminal-with-non-boolean-children".to_string()
                        } else {
                            format!("value-summary/import_into_guard/{}", p.class())
                        };
                        return Err(Failure::new(sig, format!("panic {}:{} {}\n{}", p.file, p.line, p.msg, hist.join(" ; "))));
                    }
                    let entries = s.vs.verif_entries();
                    if entries.len() > 2 || entries.iter().any(|(_, v)| !(w.ctx[*v].is_true() || w.ctx[*v].is_false())) {
                        return Err(Failure::new(
                            "value-summary/import_into_guard/not-canonical",
                            format!("{} entries: {:?}\n{}", entries.len(), entries.iter().map(|(_, v)| refeval::show(&w.ctx, *v)).collect::<Vec<_>>(), hist.join(" ; ")),
                        ));
                    }
                    check_summary(&w, &s, &envs, "import_into_guard", &hist)?;
                    pool.push(s);
                }
                6 => {
                    // composite: a two-level ite tree over leaf values drawn from a tiny set, so that
                    // equal values end up in non-adjacent entries (what coalesce has to merge)
                    let width = if t.flag() { 1 } else { dw };
                    let leaf_vals: Vec<ExprRef> = if width == 1 {
                        vec![w.ctx.get_true(), w.ctx.get_false(), w.bools[0]]
                    } else {
                        let l = w.ctx.bv_lit(&Bv::new(dw, t.bits(dw)).to_baa());
                        vec![w.datas[0], w.datas[1], l]
                    };
                    let mut mk_leaf = |w: &mut World, t: &mut Tape| -> Slot {
                        let v = leaf_vals[t.below(leaf_vals.len() as u32) as usize];
                        Slot { vs: ValueSummary::new(&mut w.gc, v), denote: v, width }
                    };
                    let mut level: Vec<Slot> = (0..4).map(|_| mk_leaf(&mut w, &mut t)).collect();
                    hist.push(format!(
                        "tree[{}]",
                        level.iter().map(|s| refeval::show(&w.ctx, s.denote)).collect::<Vec<_>>().join(",")
                    ));
                    while level.len() > 1 {
                        let mut next = vec![];
                        while level.len() >= 2 {
                            let a = level.remove(0);
                            let b = level.remove(0);
                            // plain 1-bit symbols as conditions: guards never collapse
                            let cv = w.bools[t.below(w.bools.len() as u32) as usize];
                            let c = ValueSummary::new(&mut w.gc, cv);
                            let denote = w.ctx.ite(cv, a.denote, b.denote);
                            hist.push(format!("apply_ite({}, .., ..)", refeval::show(&w.ctx, cv)));
                            match guard(|| ValueSummary::apply_ite(&mut w.ctx, &mut w.gc, c, a.vs, b.vs)) {
                                Ok(vs) => {
                                    did_ite = true;
                                    let s = Slot { vs, denote, width };
                                    check_summary(&w, &s, &envs, "apply_ite", &hist)?;
                                    next.push(s);
                                }
                                Err(p) => {
                                    return Err(Failure::new(
                                        format!("value-summary/apply_ite/{}", p.class()),
                                        format!("panic {}:{} {}\n{}", p.file, p.line, p.msg, hist.join(" ; ")),
                                    ));
                                }
                            }
                        }
                        next.extend(level.drain(..));
                        level = next;
                    }
                    pool.push(level.pop().unwrap());
                }
                _ => {
                    // expr_to_guard of a Boolean expression
                    let e = gen_bool_expr(&mut w, &mut t, 3);
                    hist.push(format!("expr_to_guard({})", refeval::show(&w.ctx, e)));
                    let g = match guard(|| w.gc.expr_to_guard(&w.ctx, e)) {
                        Ok(g) => g,
                        Err(p) => {
                            let sig = if p.file.ends_with("expr/traversal.rs") {
                                "value-summary/expr_to_guard/terminal-with-non-boolean-children".to_string()
                            } else {
                                format!("value-summary/expr_to_guard/{}", p.class())
                            };
                            return Err(Failure::new(sig, format!("panic {}:{} {}\n{}", p.file, p.line, p.msg, hist.join(" ; "))));
                        }
                    };
                    for env in envs.iter() {
                        let tv = terminal_valuation(&w, env).map_err(|m| Failure::new("harness/c20", m))?;
                        let got = w.gc.verif_eval(g, &tv);
                        let exp = refeval::eval(&w.ctx, env, e).map_err(|m| Failure::new("harness/c20", m))?.bv().is_true();
                        if got != exp {
                            let sig = if w.has_complex_terminal {
                                "value-summary/expr_to_guard/wrong-guard(with-non-boolean-children)"
                            } else {
                                "value-summary/expr_to_guard/wrong-guard"
                            };
                            return Err(Failure::new(
                                sig,
                                format!(
                                    "guard of {} is {} but the expression is {} under {}",
                                    refeval::show(&w.ctx, e),
                                    got,
                                    exp,
                                    crate::props::c01::show_env(&w.ctx, env)
                                ),
                            ));
                        }
                    }
                    rec.label("expr_to_guard");
                }
            }
        }
        if w.has_complex_terminal {
            rec.label("guards-with-data-comparisons");
        }
        if did_ite && did_cross && did_merge {
            rec.nontrivial(hash_bytes(tape));
            if rec.want_sample() {
                rec.sample(hist.join(" ; "));
            }
        }
        if did_ite {
            rec.label("apply_ite");
        }
        if did_cross {
            rec.label("cross-product-bin-op");
        }
        if did_merge {
            rec.label("coalesce-merged");
        }
        Ok(())
    }
}
