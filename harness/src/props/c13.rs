//! C13 — the simplifier terminates, is idempotent and cache-transparent (history independent).

use crate::engine::*;
use crate::gen_expr::gen_case;
use crate::refeval::{self, op_name, reachable};
use crate::tape::{Tape, hash_bytes};
use patronus::expr::{Context, DenseExprMetaData, ExprRef, Simplifier, SparseExprMap};
use std::sync::mpsc;
use std::time::Duration;

pub struct C13;

#[derive(Debug)]
struct Outcome {
    alone: Vec<ExprRef>,
    batch_sparse: Vec<ExprRef>,
    batch_dense: Vec<ExprRef>,
    again_same: Vec<ExprRef>,
    again_fresh: Vec<ExprRef>,
    /// simplify(root) a second time with the same instance
    repeat_same: Vec<ExprRef>,
}

fn run_all(ctx: &mut Context, roots: &[ExprRef], order: &[usize]) -> Outcome {
    let alone: Vec<ExprRef> = roots
        .iter()
        .map(|r| Simplifier::new(SparseExprMap::default()).simplify(ctx, *r))
        .collect();
    let mut s_sparse = Simplifier::new(SparseExprMap::default());
    let mut batch_sparse = vec![roots[0]; roots.len()];
    for &i in order {
        batch_sparse[i] = s_sparse.simplify(ctx, roots[i]);
    }
    let mut s_dense = Simplifier::new(DenseExprMetaData::default());
    let mut batch_dense = vec![roots[0]; roots.len()];
    for &i in order {
        batch_dense[i] = s_dense.simplify(ctx, roots[i]);
    }
    let again_same: Vec<ExprRef> = batch_sparse.iter().map(|r| s_sparse.simplify(ctx, *r)).collect();
    let again_fresh: Vec<ExprRef> = alone
        .iter()
        .map(|r| Simplifier::new(DenseExprMetaData::default()).simplify(ctx, *r))
        .collect();
    let repeat_same: Vec<ExprRef> = roots.iter().map(|r| s_dense.simplify(ctx, *r)).collect();
    Outcome { alone, batch_sparse, batch_dense, again_same, again_fresh, repeat_same }
}

fn with_watchdog<T: Send + 'static>(secs: u64, f: impl FnOnce() -> T + Send + 'static) -> Option<Result<T, PanicInfo>> {
    let (tx, rx) = mpsc::channel();
    std::thread::Builder::new()
        .stack_size(16 << 20)
        .spawn(move || {
            let r = guard(f);
            let _ = tx.send(r);
        })
        .ok()?;
    match rx.recv_timeout(Duration::from_secs(secs)) {
        Ok(r) => Some(r),
        Err(_) => None,
    }
}

impl Prop for C13 {
    fn id(&self) -> &'static str {
        "C13"
    }
    fn fuzz_target(&self) -> Option<&'static str> {
        Some("tape")
    }
    fn rule(&self) -> String {
        "batches of 1-6 expressions grown from one pool (so they share sub-terms), a permutation of the batch and both cache containers; in one Context: result alone (fresh simplifier) == result inside the batch in permuted order (sparse cache) == same with dense cache; simplify(result) == result with the same and with a fresh instance; simplifying a root twice with one instance gives the same reference. Termination: each case runs on its own thread under a 10 s watchdog (typical < 1 ms), re-run alone with 60 s before being declared non-terminating. Non-trivial: batch of >= 2 roots sharing a non-leaf sub-term with >= 1 root changed by simplification; distinct by hash of the batch.".into()
    }
    fn assumptions(&self) -> Vec<String> {
        vec!["a case exceeding 60 s (> 10^4 x the typical time) is counted as non-termination".into()]
    }
    fn budget(&self, tier: Tier) -> Budget {
        match tier {
            Tier::Quick => Budget { cases: 100_000, max_tape: 384 },
            Tier::Thorough => Budget { cases: 2_000_000, max_tape: 768 },
        }
    }
    fn run_tape(&self, tape: &[u8], tier: Tier, rec: &mut Recorder) -> Result<(), Failure> {
        let mut t = Tape::new(tape);
        let cfg = crate::props::c01::gen_cfg(tier);
        // permutation seed first so that it is stable under generator changes at the end
        let perm_seed = t.u16();
        let mut case = gen_case(&mut t, &cfg, 6);
        // sometimes one root is large: a chain over several hundred rewritable terms, so that a single
        // call performs thousands of rule applications (budgets, depth limits, cache growth)
        if t.chance(16) {
            let n = 150 + t.below(1300);
            let w = 1 + t.below(8);
            let ctx = &mut case.ctx;
            let zero = ctx.zero(w);
            let mut acc = ctx.bv_symbol("big_acc", w);
            let op = t.below(3);
            for i in 0..n {
                let x = ctx.bv_symbol(&format!("big{}", i), w);
                let x0 = ctx.xor(x, zero);
                let n1 = ctx.not(x0);
                let term = ctx.not(n1);
                acc = match op {
                    0 => ctx.xor(acc, term),
                    1 => ctx.add(acc, term),
                    _ => ctx.or(term, acc),
                };
            }
            case.roots.push(acc);
            rec.label("large-root");
        }
        let roots = case.roots.clone();
        let n = roots.len();
        let mut order: Vec<usize> = (0..n).collect();
        // Fisher-Yates from the seed
        let mut s = crate::tape::SplitMix(perm_seed as u64);
        for i in (1..n).rev() {
            let j = s.below(i as u64 + 1) as usize;
            order.swap(i, j);
        }
        rec.eval();
        rec.label(&format!("batch-size:{}", n));

        let ctx0 = case.ctx.clone();
        let roots2 = roots.clone();
        let order2 = order.clone();
        let res = with_watchdog(10, move || {
            let mut ctx = ctx0;
            let o = run_all(&mut ctx, &roots2, &order2);
            (ctx, o)
        });
        let (ctx, o) = match res {
            None => {
                // re-run alone with a long limit before declaring non-termination
                let ctx1 = case.ctx.clone();
                let roots3 = roots.clone();
                let order3 = order.clone();
                let again = with_watchdog(60, move || {
                    let mut ctx = ctx1;
                    let o = run_all(&mut ctx, &roots3, &order3);
                    (ctx, o)
                });
                match again {
                    None => {
                        let shapes: Vec<&str> = roots.iter().map(|r| op_name(&case.ctx[*r])).collect();
                        return Err(Failure::new(
                            "hang/simplify/non-termination",
                            format!(
                                "simplification did not finish within 60 s; roots: {}\nshapes: {:?}",
                                roots.iter().map(|r| refeval::show(&case.ctx, *r)).collect::<Vec<_>>().join(" ;; "),
                                shapes
                            ),
                        ));
                    }
                    Some(Ok(x)) => x,
                    Some(Err(p)) => return Err(panic_failure(&case.ctx, &roots, p)),
                }
            }
            Some(Ok(x)) => x,
            Some(Err(p)) => return Err(panic_failure(&case.ctx, &roots, p)),
        };

        let show = |e: ExprRef| refeval::show(&ctx, e);
        for i in 0..n {
            let shape = op_name(&ctx[roots[i]]);
            if o.alone[i] != o.batch_sparse[i] {
                return Err(Failure::new(
                    format!("simplify-cache/history-dependent/sparse/{}", shape),
                    format!(
                        "root {} of batch (order {:?}): alone -> {} but in batch -> {}\nroot: {}",
                        i, order, show(o.alone[i]), show(o.batch_sparse[i]), show(roots[i])
                    ),
                ));
            }
            if o.alone[i] != o.batch_dense[i] {
                return Err(Failure::new(
                    format!("simplify-cache/history-dependent/dense/{}", shape),
                    format!(
                        "root {} of batch (order {:?}): alone -> {} but with dense cache in batch -> {}\nroot: {}",
                        i, order, show(o.alone[i]), show(o.batch_dense[i]), show(roots[i])
                    ),
                ));
            }
            if o.again_same[i] != o.batch_sparse[i] {
                return Err(Failure::new(
                    format!("simplify-cache/not-idempotent/same-instance/{}", op_name(&ctx[o.batch_sparse[i]])),
                    format!(
                        "simplify({}) = {} but simplifying that again (same instance) gives {}",
                        show(roots[i]), show(o.batch_sparse[i]), show(o.again_same[i])
                    ),
                ));
            }
            if o.again_fresh[i] != o.alone[i] {
                return Err(Failure::new(
                    format!("simplify-cache/not-idempotent/fresh-instance/{}", op_name(&ctx[o.alone[i]])),
                    format!(
                        "simplify({}) = {} but simplifying that again (fresh instance) gives {}",
                        show(roots[i]), show(o.alone[i]), show(o.again_fresh[i])
                    ),
                ));
            }
            if o.repeat_same[i] != o.batch_dense[i] {
                return Err(Failure::new(
                    format!("simplify-cache/unstable-repeat/{}", shape),
                    format!(
                        "same instance, same root {}: first {} then {}",
                        show(roots[i]), show(o.batch_dense[i]), show(o.repeat_same[i])
                    ),
                ));
            }
        }

        // non-triviality: >= 2 roots sharing a non-leaf sub-term, >= 1 root changed
        if n >= 2 && (0..n).any(|i| o.alone[i] != roots[i]) {
            let mut shared = false;
            let sets: Vec<rustc_hash::FxHashSet<ExprRef>> = roots
                .iter()
                .map(|r| {
                    reachable(&ctx, &[*r])
                        .into_iter()
                        .filter(|e| !ctx[*e].is_symbol() && !ctx[*e].is_bv_lit())
                        .collect()
                })
                .collect();
            'outer: for i in 0..n {
                for j in (i + 1)..n {
                    if roots[i] != roots[j] && sets[i].intersection(&sets[j]).next().is_some() {
                        shared = true;
                        break 'outer;
                    }
                }
            }
            if shared {
                let h = roots.iter().fold(perm_seed as u64, |h, r| {
                    h.wrapping_mul(31) ^ hash_bytes(show(*r).as_bytes())
                });
                rec.nontrivial(h);
                if rec.want_sample() {
                    rec.sample(format!(
                        "order {:?}: {}",
                        order,
                        roots.iter().map(|r| show(*r)).collect::<Vec<_>>().join(" ;; ")
                    ));
                }
            }
        }
        Ok(())
    }
}

fn panic_failure(ctx: &Context, roots: &[ExprRef], p: PanicInfo) -> Failure {
    Failure::new(
        format!("simplify-cache/{}", p.class()),
        format!(
            "panic {}:{} {}\nroots: {}",
            p.file,
            p.line,
            p.msg,
            roots.iter().map(|r| refeval::show(ctx, *r)).collect::<Vec<_>>().join(" ;; ")
        ),
    )
}
