//! Reference simulator and explicit-state reachability oracle built on `refeval`.
//!
//! Semantics: initial states = all valuations of init-less states, with init-ed states computed in
//! declaration order (an init expression may mention earlier states); a step under input `i` is
//! enabled iff all constraints hold on `(s, i)`; `s' = next(s, i)` simultaneously; next-less states
//! range over all values. `min_bad_depth[j]` is the least k such that some execution s0..sk whose
//! steps 0..k-1 are enabled reaches sk, and some input ik satisfies constraints(sk,ik) and bad_j(sk,ik).

use crate::refeval::{self, Env};
use crate::refval::{Arr, Bv, Val};
use num_bigint::BigUint;
use num_traits::ToPrimitive;
use patronus::expr::{Context, ExprRef, Type, TypeCheck};
#[allow(unused_imports)]
use std::collections::HashSet;
use patronus::system::TransitionSystem;
use std::collections::{HashMap, VecDeque};

pub fn type_bits(t: Type) -> u32 {
    crate::gen_sys::type_bits(t)
}

/// all values of a type (small types only)
pub fn decode_value(t: Type, code: u64) -> Val {
    match t {
        Type::BV(w) => Val::Bv(Bv::from_u64(w, code)),
        Type::Array(a) => {
            let mut arr = Arr::constant(a.index_width, &Bv::zero(a.data_width));
            let mut rest = code;
            for i in 0..(1u64 << a.index_width) {
                let d = rest & ((1u64 << a.data_width) - 1);
                rest >>= a.data_width;
                arr = arr.store(&Bv::from_u64(a.index_width, i), &Bv::from_u64(a.data_width, d));
            }
            Val::Arr(arr)
        }
    }
}

pub fn decode_value_zero(t: Type) -> Val {
    match t {
        Type::BV(w) => Val::Bv(Bv::zero(w)),
        Type::Array(a) => Val::Arr(Arr::constant(a.index_width, &Bv::zero(a.data_width))),
    }
}

pub fn encode_value(v: &Val) -> u64 {
    match v {
        Val::Bv(b) => b.v.to_u64().expect("small value"),
        Val::Arr(a) => {
            let mut code = 0u64;
            for i in (0..(1u64 << a.iw)).rev() {
                let d = a.select(&Bv::from_u64(a.iw, i));
                code = (code << a.dw) | d.v.to_u64().unwrap();
            }
            code
        }
    }
}

pub struct RefSim<'a> {
    pub ctx: &'a Context,
    pub sys: &'a TransitionSystem,
    pub state_types: Vec<Type>,
    pub input_types: Vec<Type>,
    /// wide bit-vector states (> 16 bits) are enumerated over the literals of their width that occur in
    /// the system (the generator only lets such a state hold literals); None for ordinary states
    pub tables: Vec<Option<Vec<Val>>>,
}

#[derive(Clone, Debug)]
pub struct StepResult {
    pub constraints_ok: bool,
    pub bads: Vec<bool>,
}

impl<'a> RefSim<'a> {
    pub fn new(ctx: &'a Context, sys: &'a TransitionSystem) -> Self {
        let state_types: Vec<Type> = sys.states.iter().map(|s| s.symbol.get_type(ctx)).collect();
        let mut tables: Vec<Option<Vec<Val>>> = vec![None; state_types.len()];
        if state_types.iter().any(|t| matches!(t, Type::BV(w) if *w > 16)) {
            let mut roots: Vec<ExprRef> = vec![];
            for st in sys.states.iter() {
                roots.extend(st.init.iter());
                roots.extend(st.next.iter());
            }
            roots.extend(sys.bad_states.iter());
            roots.extend(sys.constraints.iter());
            roots.extend(sys.outputs.iter().map(|o| o.expr));
            let nodes = refeval::reachable(ctx, &roots);
            for (k, t) in state_types.iter().enumerate() {
                if let Type::BV(w) = t {
                    if *w > 16 {
                        let mut lits: Vec<Bv> =
                            nodes.iter().filter_map(|n| refeval::lit_value(ctx, *n)).filter(|b| b.w == *w).collect();
                        lits.sort_by(|a, b| a.v.cmp(&b.v));
                        lits.dedup();
                        if !lits.is_empty() && lits.len() <= 8 {
                            tables[k] = Some(lits.into_iter().map(Val::Bv).collect());
                        }
                    }
                }
            }
        }
        RefSim { ctx, sys, state_types, input_types: sys.inputs.iter().map(|s| s.get_type(ctx)).collect(), tables }
    }
    /// bits of the enumeration code of state k
    fn code_bits(&self, k: usize) -> u32 {
        match &self.tables[k] {
            Some(t) => (usize::BITS - (t.len().max(2) - 1).leading_zeros()).max(1),
            None => type_bits(self.state_types[k]),
        }
    }
    fn encode_state_value(&self, k: usize, v: &Val) -> u64 {
        match &self.tables[k] {
            // a value outside the table would be a generator error; it maps to an unused code so that
            // decoding fails loudly instead of aliasing another state
            Some(t) => t.iter().position(|x| x.sem_eq(v)).map(|i| i as u64).unwrap_or((1u64 << self.code_bits(k)) - 1),
            None => encode_value(v),
        }
    }
    fn decode_state_value(&self, k: usize, code: u64) -> Val {
        match &self.tables[k] {
            Some(t) => t.get(code as usize).cloned().unwrap_or_else(|| t[0].clone()),
            None => decode_value(self.state_types[k], code),
        }
    }
    pub fn state_bits(&self) -> u32 {
        (0..self.state_types.len()).map(|k| self.code_bits(k)).sum()
    }
    pub fn input_bits(&self) -> u32 {
        self.input_types.iter().map(|t| type_bits(*t)).sum()
    }
    pub fn env(&self, states: &[Val], inputs: &[Val]) -> Env {
        let mut env = Env::default();
        // inputs first so that a symbol that is both input and state reads the state value
        for (k, i) in self.sys.inputs.iter().enumerate() {
            env.insert(*i, inputs[k].clone());
        }
        for (k, s) in self.sys.states.iter().enumerate() {
            env.insert(s.symbol, states[k].clone());
        }
        env
    }
    /// Initial state: `free[k]` is used for init-less states; init-ed states are computed in
    /// declaration order over the already determined earlier states and the inputs of step 0
    /// (an init expression may mention inputs: the initial state then depends on the first input).
    pub fn initial(&self, free: &[Val], inputs0: &[Val]) -> Result<Vec<Val>, String> {
        let mut vals: Vec<Val> = Vec::with_capacity(self.sys.states.len());
        let mut env = Env::default();
        for (k, i) in self.sys.inputs.iter().enumerate() {
            env.insert(*i, inputs0[k].clone());
        }
        for (k, s) in self.sys.states.iter().enumerate() {
            let v = match s.init {
                None => free[k].clone(),
                Some(e) => refeval::eval(self.ctx, &env, e)?,
            };
            env.insert(s.symbol, v.clone());
            vals.push(v);
        }
        Ok(vals)
    }
    pub fn eval(&self, states: &[Val], inputs: &[Val], e: ExprRef) -> Result<Val, String> {
        refeval::eval(self.ctx, &self.env(states, inputs), e)
    }
    pub fn observe(&self, states: &[Val], inputs: &[Val]) -> Result<StepResult, String> {
        let env = self.env(states, inputs);
        let mut cache = Default::default();
        let mut ok = true;
        for c in self.sys.constraints.iter() {
            if !refeval::eval_cached(self.ctx, &env, *c, &mut cache)?.bv().is_true() {
                ok = false;
            }
        }
        let mut bads = vec![];
        for b in self.sys.bad_states.iter() {
            bads.push(refeval::eval_cached(self.ctx, &env, *b, &mut cache)?.bv().is_true());
        }
        Ok(StepResult { constraints_ok: ok, bads })
    }
    /// next state; `free[k]` for next-less states
    pub fn next(&self, states: &[Val], inputs: &[Val], free: &[Val]) -> Result<Vec<Val>, String> {
        let env = self.env(states, inputs);
        let mut cache = Default::default();
        let mut out = Vec::with_capacity(states.len());
        for (k, s) in self.sys.states.iter().enumerate() {
            out.push(match s.next {
                Some(e) => refeval::eval_cached(self.ctx, &env, e, &mut cache)?,
                None => free[k].clone(),
            });
        }
        Ok(out)
    }

    fn encode_state(&self, vals: &[Val]) -> u64 {
        let mut code = 0u64;
        for (k, v) in vals.iter().enumerate().rev() {
            code = (code << self.code_bits(k)) | self.encode_state_value(k, v);
        }
        code
    }
    fn decode_state(&self, mut code: u64) -> Vec<Val> {
        let mut out = vec![];
        for k in 0..self.state_types.len() {
            let b = self.code_bits(k);
            let m = if b >= 64 { u64::MAX } else { (1u64 << b) - 1 };
            out.push(self.decode_state_value(k, code & m));
            code = if b >= 64 { 0 } else { code >> b };
        }
        out
    }
    fn decode_inputs(&self, mut code: u64) -> Vec<Val> {
        let mut out = vec![];
        for t in self.input_types.iter() {
            let b = type_bits(*t);
            out.push(decode_value(*t, code & ((1u64 << b) - 1)));
            code >>= b;
        }
        out
    }
    /// enumerate the values of the given subset of states (others fixed by `base`)
    fn free_combinations(&self, free_idx: &[usize]) -> Vec<Vec<(usize, Val)>> {
        let mut out: Vec<Vec<(usize, Val)>> = vec![vec![]];
        for &k in free_idx {
            let bits = self.code_bits(k);
            let n_codes = match &self.tables[k] {
                Some(t) => t.len() as u64,
                None => 1u64 << bits,
            };
            let mut next = vec![];
            for combo in out.iter() {
                for code in 0..n_codes {
                    let mut c = combo.clone();
                    c.push((k, self.decode_state_value(k, code)));
                    next.push(c);
                }
            }
            out = next;
        }
        out
    }
}

#[derive(Clone, Debug)]
pub struct Reach {
    /// per bad index: minimal depth at which it can hold (with constraints) or None if unreachable
    pub min_bad_depth: Vec<Option<u32>>,
    /// number of reachable states (by enabled transitions)
    pub reachable: usize,
    /// depth at which the last new state was discovered
    pub diameter: u32,
    /// exists an execution (constraints holding at every step) of length >= k for each k up to this
    /// (u32::MAX if executions of every length exist)
    pub max_execution_len: u32,
    /// reachable states (codes) with their discovery depth
    pub depth_of: HashMap<u64, u32>,
}

impl Reach {
    pub fn min_any_bad(&self) -> Option<u32> {
        self.min_bad_depth.iter().flatten().min().copied()
    }
}

/// Full explicit-state exploration. Requires small state and input spaces.
pub fn reachability(sim: &RefSim) -> Result<Reach, String> {
    let sbits = sim.state_bits();
    let ibits = sim.input_bits();
    if sbits > 16 || ibits > 10 {
        return Err(format!("harness: system too large for enumeration ({} state bits, {} input bits)", sbits, ibits));
    }
    let n_bad = sim.sys.bad_states.len();
    let free_init: Vec<usize> = (0..sim.sys.states.len()).filter(|k| sim.sys.states[*k].init.is_none()).collect();
    let free_next: Vec<usize> = (0..sim.sys.states.len()).filter(|k| sim.sys.states[*k].next.is_none()).collect();
    let zero: Vec<Val> = (0..sim.state_types.len()).map(|k| sim.decode_state_value(k, 0)).collect();

    let init_uses_inputs = {
        let roots: Vec<ExprRef> = sim.sys.states.iter().filter_map(|s| s.init).collect();
        refeval::symbols_of(sim.ctx, &roots).iter().any(|s| sim.sys.inputs.contains(s))
    };
    let next_combos = sim.free_combinations(&free_next);
    let mut min_bad: Vec<Option<u32>> = vec![None; n_bad];
    let mut depth_of: HashMap<u64, u32> = HashMap::new();
    let mut queue: VecDeque<(u64, u32)> = VecDeque::new();
    let mut diameter = 0;
    let mut enabled_succ: HashMap<u64, Vec<u64>> = HashMap::new();
    let mut has_enabled_input: HashMap<u64, bool> = HashMap::new();
    // ---- step 0: (initial state, first input) pairs; the initial state may depend on the first input
    // pairs: (state code, input code) ; when init does not read inputs every input pairs with s0
    let mut init_pairs: Vec<(u64, u64)> = vec![];
    let zero_inputs: Vec<Val> = sim.input_types.iter().map(|t| decode_value(*t, 0)).collect();
    for combo in sim.free_combinations(&free_init) {
        let mut free = zero.clone();
        for (k, v) in combo {
            free[k] = v;
        }
        if init_uses_inputs {
            for icode in 0..(1u64 << ibits) {
                let inp = sim.decode_inputs(icode);
                let s0 = sim.initial(&free, &inp)?;
                init_pairs.push((sim.encode_state(&s0), icode));
            }
        } else {
            let s0 = sim.initial(&free, &zero_inputs)?;
            let code = sim.encode_state(&s0);
            for icode in 0..(1u64 << ibits) {
                init_pairs.push((code, icode));
            }
        }
    }
    init_pairs.sort();
    init_pairs.dedup();
    // enabled initial pairs and their successors
    let mut init_enabled: Vec<(u64, u64, Vec<u64>)> = vec![];
    for (code, icode) in init_pairs.iter() {
        depth_of.entry(*code).or_insert(0);
        let s = sim.decode_state(*code);
        let inp = sim.decode_inputs(*icode);
        let obs = sim.observe(&s, &inp)?;
        if !obs.constraints_ok {
            continue;
        }
        for (j, b) in obs.bads.iter().enumerate() {
            if *b {
                min_bad[j] = Some(0);
            }
        }
        let mut succs = vec![];
        for combo in next_combos.iter() {
            let mut free = zero.clone();
            for (k, v) in combo {
                free[*k] = v.clone();
            }
            let n = sim.next(&s, &inp, &free)?;
            let ncode = sim.encode_state(&n);
            if !succs.contains(&ncode) {
                succs.push(ncode);
            }
        }
        init_enabled.push((*code, *icode, succs));
    }
    // ---- steps >= 1: ordinary breadth-first search over states with all inputs
    let mut seen_later: HashMap<u64, u32> = HashMap::new();
    for (_, _, succs) in init_enabled.iter() {
        for n in succs {
            if !seen_later.contains_key(n) {
                seen_later.insert(*n, 1);
                queue.push_back((*n, 1));
            }
        }
    }
    while let Some((code, d)) = queue.pop_front() {
        diameter = diameter.max(d);
        depth_of.entry(code).or_insert(d);
        let s = sim.decode_state(code);
        let mut succs: Vec<u64> = vec![];
        let mut any_enabled = false;
        for icode in 0..(1u64 << ibits) {
            let inp = sim.decode_inputs(icode);
            let obs = sim.observe(&s, &inp)?;
            if !obs.constraints_ok {
                continue;
            }
            any_enabled = true;
            for (j, b) in obs.bads.iter().enumerate() {
                if *b && min_bad[j].map(|m| d < m).unwrap_or(true) {
                    min_bad[j] = Some(d);
                }
            }
            for combo in next_combos.iter() {
                let mut free = zero.clone();
                for (k, v) in combo {
                    free[*k] = v.clone();
                }
                let n = sim.next(&s, &inp, &free)?;
                let ncode = sim.encode_state(&n);
                if !succs.contains(&ncode) {
                    succs.push(ncode);
                }
                if !seen_later.contains_key(&ncode) {
                    seen_later.insert(ncode, d + 1);
                    queue.push_back((ncode, d + 1));
                }
            }
        }
        has_enabled_input.insert(code, any_enabled);
        enabled_succ.insert(code, succs);
    }
    // Number of steps N such that constraints can hold at steps 0..N-1 on some execution:
    // A_1 = later states with an enabled input; A_{k+1} = those with an enabled input leading into A_k.
    let mut alive: std::collections::HashSet<u64> =
        has_enabled_input.iter().filter(|(_, e)| **e).map(|(c, _)| *c).collect();
    let mut max_execution_len: u32 = 0;
    if !init_enabled.is_empty() {
        max_execution_len = 1;
        let bound = seen_later.len() as u32 + 2;
        loop {
            // N >= max_execution_len + 1 iff some enabled initial pair leads into A_{max_execution_len}
            if !init_enabled.iter().any(|(_, _, succs)| succs.iter().any(|n| alive.contains(n))) {
                break;
            }
            max_execution_len += 1;
            if max_execution_len > bound {
                max_execution_len = u32::MAX;
                break;
            }
            let next_alive: std::collections::HashSet<u64> = alive
                .iter()
                .copied()
                .filter(|s| enabled_succ[s].iter().any(|n| alive.contains(n)))
                .collect();
            alive = next_alive;
        }
    }
    let _ = BigUint::from(0u32);
    Ok(Reach { min_bad_depth: min_bad, reachable: depth_of.len(), diameter, max_execution_len, depth_of })
}
