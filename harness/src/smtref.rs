//! Independent SMT-LIB 2.6 front end: s-expression reader (lexical rules of the standard), strict
//! scope/sort checker for the QF_ABV fragment, term evaluator over `refval`, value printer.
//! Shares no code with patronus' writer or reader.

use crate::refval::{Arr, Bv};
use num_bigint::BigUint;
use num_traits::{One, Zero};
use std::collections::HashMap;

// ---------------------------------------------------------------------------------------------
// s-expressions
// ---------------------------------------------------------------------------------------------

#[derive(Clone, Debug, PartialEq, Eq)]
pub enum Atom {
    /// simple or quoted symbol, content without bars
    Symbol(String),
    Keyword(String),
    Numeral(String),
    Decimal(String),
    Bin(String),
    Hex(String),
    Str(String),
}

#[derive(Clone, Debug, PartialEq, Eq)]
pub enum SExpr {
    Atom(Atom),
    List(Vec<SExpr>),
}

impl SExpr {
    pub fn sym(&self) -> Option<&str> {
        match self {
            SExpr::Atom(Atom::Symbol(s)) => Some(s.as_str()),
            _ => None,
        }
    }
    pub fn list(&self) -> Option<&[SExpr]> {
        match self {
            SExpr::List(l) => Some(l.as_slice()),
            _ => None,
        }
    }
    pub fn numeral(&self) -> Option<u64> {
        match self {
            SExpr::Atom(Atom::Numeral(s)) => s.parse().ok(),
            _ => None,
        }
    }
}

fn is_symbol_char(c: char) -> bool {
    c.is_ascii_alphanumeric() || "~!@$%^&*_-+=<>.?/".contains(c)
}

pub const RESERVED: [&str; 33] = [
    "!", "_", "as", "BINARY", "DECIMAL", "exists", "HEXADECIMAL", "forall", "let", "match", "NUMERAL",
    "par", "STRING", "assert", "check-sat", "check-sat-assuming", "declare-const", "declare-datatype",
    "declare-datatypes", "declare-fun", "declare-sort", "define-fun", "define-fun-rec", "define-sort",
    "echo", "exit", "get-assertions", "get-assignment", "get-info", "get-model", "get-option",
    "get-proof", "get-value",
];

/// Reads all s-expressions of the input. Errors on any lexical problem.
pub fn read_all(input: &str) -> Result<Vec<SExpr>, String> {
    let chars: Vec<char> = input.chars().collect();
    let mut pos = 0usize;
    let mut stack: Vec<Vec<SExpr>> = vec![vec![]];
    while pos < chars.len() {
        let c = chars[pos];
        match c {
            ' ' | '\t' | '\n' | '\r' => pos += 1,
            ';' => {
                while pos < chars.len() && chars[pos] != '\n' && chars[pos] != '\r' {
                    pos += 1;
                }
            }
            '(' => {
                stack.push(vec![]);
                pos += 1;
            }
            ')' => {
                if stack.len() < 2 {
                    return Err("unbalanced ')'".into());
                }
                let l = stack.pop().unwrap();
                stack.last_mut().unwrap().push(SExpr::List(l));
                pos += 1;
            }
            '|' => {
                let start = pos + 1;
                pos += 1;
                while pos < chars.len() && chars[pos] != '|' {
                    if chars[pos] == '\\' {
                        return Err("backslash in quoted symbol".into());
                    }
                    pos += 1;
                }
                if pos >= chars.len() {
                    return Err("unterminated quoted symbol".into());
                }
                let s: String = chars[start..pos].iter().collect();
                pos += 1;
                stack.last_mut().unwrap().push(SExpr::Atom(Atom::Symbol(s)));
            }
            '"' => {
                pos += 1;
                let mut s = String::new();
                loop {
                    if pos >= chars.len() {
                        return Err("unterminated string literal".into());
                    }
                    if chars[pos] == '"' {
                        if pos + 1 < chars.len() && chars[pos + 1] == '"' {
                            s.push('"');
                            pos += 2;
                        } else {
                            pos += 1;
                            break;
                        }
                    } else {
                        s.push(chars[pos]);
                        pos += 1;
                    }
                }
                stack.last_mut().unwrap().push(SExpr::Atom(Atom::Str(s)));
            }
            '#' => {
                let start = pos;
                pos += 1;
                if pos >= chars.len() {
                    return Err("lonely #".into());
                }
                let kind = chars[pos];
                pos += 1;
                let ds = pos;
                while pos < chars.len() && chars[pos].is_ascii_alphanumeric() {
                    pos += 1;
                }
                let digits: String = chars[ds..pos].iter().collect();
                match kind {
                    'b' if !digits.is_empty() && digits.chars().all(|c| c == '0' || c == '1') => {
                        stack.last_mut().unwrap().push(SExpr::Atom(Atom::Bin(digits)))
                    }
                    'x' if !digits.is_empty() && digits.chars().all(|c| c.is_ascii_hexdigit()) => {
                        stack.last_mut().unwrap().push(SExpr::Atom(Atom::Hex(digits)))
                    }
                    _ => {
                        let tok: String = chars[start..pos].iter().collect();
                        return Err(format!("bad literal {}", tok));
                    }
                }
            }
            ':' => {
                let start = pos + 1;
                pos += 1;
                while pos < chars.len() && is_symbol_char(chars[pos]) {
                    pos += 1;
                }
                let s: String = chars[start..pos].iter().collect();
                if s.is_empty() {
                    return Err("empty keyword".into());
                }
                stack.last_mut().unwrap().push(SExpr::Atom(Atom::Keyword(s)));
            }
            c if c.is_ascii_digit() => {
                let start = pos;
                while pos < chars.len() && chars[pos].is_ascii_digit() {
                    pos += 1;
                }
                let mut is_dec = false;
                if pos + 1 < chars.len() && chars[pos] == '.' && chars[pos + 1].is_ascii_digit() {
                    is_dec = true;
                    pos += 1;
                    while pos < chars.len() && chars[pos].is_ascii_digit() {
                        pos += 1;
                    }
                }
                if pos < chars.len() && is_symbol_char(chars[pos]) {
                    return Err("symbol starting with a digit".into());
                }
                let s: String = chars[start..pos].iter().collect();
                if s.len() > 1 && s.starts_with('0') && !is_dec {
                    return Err("numeral with leading zero".into());
                }
                stack.last_mut().unwrap().push(SExpr::Atom(if is_dec {
                    Atom::Decimal(s)
                } else {
                    Atom::Numeral(s)
                }));
            }
            c if is_symbol_char(c) => {
                let start = pos;
                while pos < chars.len() && is_symbol_char(chars[pos]) {
                    pos += 1;
                }
                let s: String = chars[start..pos].iter().collect();
                stack.last_mut().unwrap().push(SExpr::Atom(Atom::Symbol(s)));
            }
            other => return Err(format!("illegal character {:?}", other)),
        }
    }
    if stack.len() != 1 {
        return Err("unbalanced '('".into());
    }
    Ok(stack.pop().unwrap())
}

pub fn read_one(input: &str) -> Result<SExpr, String> {
    let mut all = read_all(input)?;
    if all.len() != 1 {
        return Err(format!("expected exactly one s-expression, found {}", all.len()));
    }
    Ok(all.pop().unwrap())
}

// ---------------------------------------------------------------------------------------------
// sorts and values
// ---------------------------------------------------------------------------------------------

#[derive(Clone, Debug, PartialEq, Eq, Hash)]
pub enum Sort {
    Bool,
    BV(u32),
    Array(Box<Sort>, Box<Sort>),
}

impl Sort {
    pub fn width(&self) -> u32 {
        match self {
            Sort::Bool => 1,
            Sort::BV(w) => *w,
            Sort::Array(..) => 0,
        }
    }
    pub fn to_smt(&self) -> String {
        match self {
            Sort::Bool => "Bool".into(),
            Sort::BV(w) => format!("(_ BitVec {})", w),
            Sort::Array(i, d) => format!("(Array {} {})", i.to_smt(), d.to_smt()),
        }
    }
    /// patronus type <-> sort with 1-bit as Bool
    pub fn of_bv_width(w: u32) -> Sort {
        if w == 1 { Sort::Bool } else { Sort::BV(w) }
    }
}

pub fn parse_sort(e: &SExpr) -> Result<Sort, String> {
    match e {
        SExpr::Atom(Atom::Symbol(s)) if s == "Bool" => Ok(Sort::Bool),
        SExpr::List(l) => match l.as_slice() {
            [u, bv, n] if u.sym() == Some("_") && bv.sym() == Some("BitVec") => {
                let w = n.numeral().ok_or("BitVec width")?;
                if w == 0 || w > u32::MAX as u64 {
                    return Err("BitVec width out of range".into());
                }
                Ok(Sort::BV(w as u32))
            }
            [a, i, d] if a.sym() == Some("Array") => {
                let i = parse_sort(i)?;
                let d = parse_sort(d)?;
                if matches!(i, Sort::Array(..)) || matches!(d, Sort::Array(..)) {
                    return Err("nested arrays unsupported".into());
                }
                Ok(Sort::Array(Box::new(i), Box::new(d)))
            }
            _ => Err(format!("unknown sort {:?}", e)),
        },
        _ => Err(format!("unknown sort {:?}", e)),
    }
}

/// value: the sort plus a width-tagged bit pattern (Bool is a 1-bit pattern) or an array of them
#[derive(Clone, Debug)]
pub enum SVal {
    B(Sort, Bv),
    A(Sort, Arr),
}

impl SVal {
    pub fn sort(&self) -> &Sort {
        match self {
            SVal::B(s, _) | SVal::A(s, _) => s,
        }
    }
    pub fn bv(&self) -> &Bv {
        match self {
            SVal::B(_, b) => b,
            _ => panic!("harness: bv expected"),
        }
    }
    pub fn arr(&self) -> &Arr {
        match self {
            SVal::A(_, a) => a,
            _ => panic!("harness: array expected"),
        }
    }
    pub fn boolean(b: bool) -> SVal {
        SVal::B(Sort::Bool, Bv::bool(b))
    }
    pub fn to_val(&self) -> crate::refval::Val {
        match self {
            SVal::B(_, b) => crate::refval::Val::Bv(b.clone()),
            SVal::A(_, a) => crate::refval::Val::Arr(a.clone()),
        }
    }
    pub fn from_val(v: &crate::refval::Val) -> SVal {
        match v {
            crate::refval::Val::Bv(b) => SVal::B(Sort::of_bv_width(b.w), b.clone()),
            crate::refval::Val::Arr(a) => SVal::A(
                Sort::Array(Box::new(Sort::of_bv_width(a.iw)), Box::new(Sort::of_bv_width(a.dw))),
                a.clone(),
            ),
        }
    }
}

// ---------------------------------------------------------------------------------------------
// scoped environment
// ---------------------------------------------------------------------------------------------

#[derive(Clone, Debug)]
pub struct Binding {
    pub sort: Sort,
    /// define-fun body (already checked); None for declare-const
    pub def: Option<SExpr>,
}

#[derive(Clone, Debug, Default)]
pub struct Scopes {
    pub frames: Vec<HashMap<String, Binding>>,
    /// declaration order (name, scope depth) for model printing
    pub order: Vec<String>,
}

impl Scopes {
    pub fn new() -> Self {
        Scopes { frames: vec![HashMap::new()], order: vec![] }
    }
    pub fn get(&self, name: &str) -> Option<&Binding> {
        self.frames.iter().rev().find_map(|f| f.get(name))
    }
    pub fn declare(&mut self, name: &str, b: Binding) -> Result<(), String> {
        if THEORY_SYMBOLS.contains(&name) || RESERVED.contains(&name) || name == "true" || name == "false" {
            return Err(format!("symbol {} is reserved or a theory symbol", name));
        }
        if name.starts_with('@') || name.starts_with('.') {
            return Err(format!("symbol {} starts with a character reserved for solvers", name));
        }
        if self.get(name).is_some() {
            return Err(format!("symbol {} is already declared or defined", name));
        }
        self.frames.last_mut().unwrap().insert(name.to_string(), b);
        self.order.push(name.to_string());
        Ok(())
    }
    pub fn push(&mut self) {
        self.frames.push(HashMap::new());
    }
    pub fn pop(&mut self) -> Result<(), String> {
        if self.frames.len() <= 1 {
            return Err("pop without matching push".into());
        }
        let f = self.frames.pop().unwrap();
        self.order.retain(|n| !f.contains_key(n));
        Ok(())
    }
    pub fn declared_consts(&self) -> Vec<(String, Sort)> {
        self.order
            .iter()
            .filter_map(|n| {
                let b = self.get(n)?;
                if b.def.is_none() { Some((n.clone(), b.sort.clone())) } else { None }
            })
            .collect()
    }
}

pub const THEORY_SYMBOLS: [&str; 52] = [
    "not", "and", "or", "xor", "=>", "=", "distinct", "ite", "select", "store", "concat", "extract",
    "bvnot", "bvneg", "bvand", "bvor", "bvxor", "bvnand", "bvnor", "bvxnor", "bvadd", "bvsub", "bvmul",
    "bvudiv", "bvurem", "bvsdiv", "bvsrem", "bvsmod", "bvshl", "bvlshr", "bvashr", "bvult", "bvule",
    "bvugt", "bvuge", "bvslt", "bvsle", "bvsgt", "bvsge", "bvcomp", "zero_extend", "sign_extend",
    "repeat", "rotate_left", "rotate_right", "const", "Bool", "BitVec", "Array", "Int", "Real", "true",
];

// ---------------------------------------------------------------------------------------------
// sort checking
// ---------------------------------------------------------------------------------------------

pub type Locals = Vec<(String, Sort)>;

fn lookup_sort(name: &str, sc: &Scopes, locals: &Locals) -> Result<Sort, String> {
    if let Some((_, s)) = locals.iter().rev().find(|(n, _)| n == name) {
        return Ok(s.clone());
    }
    sc.get(name).map(|b| b.sort.clone()).ok_or_else(|| format!("unknown constant {}", name))
}

fn bvw(s: &Sort, what: &str) -> Result<u32, String> {
    match s {
        Sort::BV(w) => Ok(*w),
        other => Err(format!("{} expects a bit-vector argument, got {}", what, other.to_smt())),
    }
}

pub fn sort_of(t: &SExpr, sc: &Scopes, locals: &mut Locals) -> Result<Sort, String> {
    match t {
        SExpr::Atom(a) => match a {
            Atom::Symbol(s) if s == "true" || s == "false" => Ok(Sort::Bool),
            Atom::Symbol(s) => lookup_sort(s, sc, locals),
            Atom::Bin(d) => Ok(Sort::BV(d.len() as u32)),
            Atom::Hex(d) => Ok(Sort::BV(4 * d.len() as u32)),
            other => Err(format!("constant {:?} is not in QF_ABV", other)),
        },
        SExpr::List(l) => {
            if l.is_empty() {
                return Err("empty term".into());
            }
            // (_ bvN w)
            if l[0].sym() == Some("_") {
                if let [_, v, n] = l.as_slice() {
                    if let Some(vs) = v.sym() {
                        if let Some(num) = vs.strip_prefix("bv") {
                            if !num.is_empty() && num.chars().all(|c| c.is_ascii_digit()) {
                                let w = n.numeral().ok_or("bv literal width")?;
                                if w == 0 {
                                    return Err("zero width".into());
                                }
                                return Ok(Sort::BV(w as u32));
                            }
                        }
                    }
                }
                return Err(format!("unknown indexed identifier {:?}", t));
            }
            if l[0].sym() == Some("let") {
                let [_, binds, body] = l.as_slice() else { return Err("malformed let".into()) };
                let binds = binds.list().ok_or("let bindings")?;
                if binds.is_empty() {
                    return Err("empty let bindings".into());
                }
                let mut new: Locals = vec![];
                for b in binds {
                    let [n, v] = b.list().ok_or("let binding")? else { return Err("let binding".into()) };
                    let name = n.sym().ok_or("let var")?;
                    let s = sort_of(v, sc, locals)?; // parallel let: old scope
                    if new.iter().any(|(x, _)| x == name) {
                        return Err("duplicate let variable".into());
                    }
                    new.push((name.to_string(), s));
                }
                let k = new.len();
                locals.extend(new);
                let r = sort_of(body, sc, locals);
                locals.truncate(locals.len() - k);
                return r;
            }
            // head can be a symbol or an indexed / qualified identifier
            let args: Result<Vec<Sort>, String> =
                l[1..].iter().map(|a| sort_of(a, sc, locals)).collect();
            let args = args?;
            match &l[0] {
                SExpr::List(h) => {
                    // ((_ extract i j) t) etc, ((as const S) v)
                    if h.first().and_then(|x| x.sym()) == Some("as") {
                        let [_, c, s] = h.as_slice() else { return Err("malformed as".into()) };
                        if c.sym() != Some("const") {
                            return Err("only (as const ...) supported".into());
                        }
                        let s = parse_sort(s)?;
                        let Sort::Array(_, d) = &s else { return Err("as const needs array sort".into()) };
                        if args.len() != 1 || args[0] != **d {
                            return Err(format!(
                                "as const element sort mismatch: {:?} vs {}",
                                args.iter().map(|a| a.to_smt()).collect::<Vec<_>>(),
                                d.to_smt()
                            ));
                        }
                        return Ok(s);
                    }
                    if h.first().and_then(|x| x.sym()) != Some("_") {
                        return Err(format!("unknown head {:?}", h));
                    }
                    let name = h.get(1).and_then(|x| x.sym()).ok_or("indexed identifier")?;
                    let idx: Option<Vec<u64>> = h[2..].iter().map(|x| x.numeral()).collect();
                    let idx = idx.ok_or("index must be numeral")?;
                    if args.len() != 1 {
                        return Err(format!("{} takes one argument", name));
                    }
                    let w = bvw(&args[0], name)?;
                    match (name, idx.as_slice()) {
                        ("extract", [i, j]) => {
                            if *i >= w as u64 || j > i {
                                return Err(format!("extract {} {} out of range for width {}", i, j, w));
                            }
                            Ok(Sort::BV((i - j + 1) as u32))
                        }
                        ("zero_extend", [n]) | ("sign_extend", [n]) => Ok(Sort::BV(w + *n as u32)),
                        ("repeat", [n]) if *n >= 1 => Ok(Sort::BV(w * *n as u32)),
                        ("rotate_left", [_]) | ("rotate_right", [_]) => Ok(Sort::BV(w)),
                        _ => Err(format!("unknown indexed op {}", name)),
                    }
                }
                SExpr::Atom(Atom::Symbol(op)) => {
                    let op = op.as_str();
                    let n = args.len();
                    let all_bool = args.iter().all(|a| *a == Sort::Bool);
                    let same = args.windows(2).all(|w| w[0] == w[1]);
                    match op {
                        "not" => {
                            if n == 1 && all_bool { Ok(Sort::Bool) } else { Err(format!("not: bad arguments {:?}", args)) }
                        }
                        "and" | "or" | "xor" | "=>" => {
                            if n >= 2 && all_bool {
                                Ok(Sort::Bool)
                            } else {
                                Err(format!("{}: needs >= 2 Bool arguments, got {:?}", op, args.iter().map(|a| a.to_smt()).collect::<Vec<_>>()))
                            }
                        }
                        "=" | "distinct" => {
                            if n >= 2 && same {
                                Ok(Sort::Bool)
                            } else {
                                Err(format!("{}: arguments must have the same sort, got {:?}", op, args.iter().map(|a| a.to_smt()).collect::<Vec<_>>()))
                            }
                        }
                        "ite" => {
                            if n == 3 && args[0] == Sort::Bool && args[1] == args[2] {
                                Ok(args[1].clone())
                            } else {
                                Err(format!("ite: bad argument sorts {:?}", args.iter().map(|a| a.to_smt()).collect::<Vec<_>>()))
                            }
                        }
                        "bvnot" | "bvneg" => {
                            if n == 1 { Ok(Sort::BV(bvw(&args[0], op)?)) } else { Err(format!("{} arity", op)) }
                        }
                        "bvand" | "bvor" | "bvadd" | "bvmul" | "bvxor" => {
                            if n >= 2 && same { Ok(Sort::BV(bvw(&args[0], op)?)) } else {
                                Err(format!("{}: needs >= 2 same-width bit-vectors, got {:?}", op, args.iter().map(|a| a.to_smt()).collect::<Vec<_>>()))
                            }
                        }
                        "bvsub" | "bvudiv" | "bvurem" | "bvsdiv" | "bvsrem" | "bvsmod" | "bvshl"
                        | "bvlshr" | "bvashr" | "bvnand" | "bvnor" | "bvxnor" => {
                            if n == 2 && same { Ok(Sort::BV(bvw(&args[0], op)?)) } else {
                                Err(format!("{}: needs 2 same-width bit-vectors, got {:?}", op, args.iter().map(|a| a.to_smt()).collect::<Vec<_>>()))
                            }
                        }
                        "bvult" | "bvule" | "bvugt" | "bvuge" | "bvslt" | "bvsle" | "bvsgt" | "bvsge" => {
                            if n == 2 && same {
                                bvw(&args[0], op)?;
                                Ok(Sort::Bool)
                            } else {
                                Err(format!("{}: needs 2 same-width bit-vectors, got {:?}", op, args.iter().map(|a| a.to_smt()).collect::<Vec<_>>()))
                            }
                        }
                        "bvcomp" => {
                            if n == 2 && same {
                                bvw(&args[0], op)?;
                                Ok(Sort::BV(1))
                            } else {
                                Err("bvcomp".into())
                            }
                        }
                        "concat" => {
                            if n == 2 {
                                Ok(Sort::BV(bvw(&args[0], op)? + bvw(&args[1], op)?))
                            } else {
                                Err("concat arity".into())
                            }
                        }
                        "select" => match args.as_slice() {
                            [Sort::Array(i, d), idx] if **i == *idx => Ok((**d).clone()),
                            _ => Err(format!("select: bad argument sorts {:?}", args.iter().map(|a| a.to_smt()).collect::<Vec<_>>())),
                        },
                        "store" => match args.as_slice() {
                            [Sort::Array(i, d), idx, v] if **i == *idx && **d == *v => Ok(args[0].clone()),
                            _ => Err(format!("store: bad argument sorts {:?}", args.iter().map(|a| a.to_smt()).collect::<Vec<_>>())),
                        },
                        other => {
                            if sc.get(other).is_some() || locals.iter().any(|(n, _)| n == other) {
                                Err(format!("{} is a constant, not a function", other))
                            } else {
                                Err(format!("unknown function {}", other))
                            }
                        }
                    }
                }
                other => Err(format!("bad application head {:?}", other)),
            }
        }
    }
}

// ---------------------------------------------------------------------------------------------
// evaluation
// ---------------------------------------------------------------------------------------------

pub type ValEnv = HashMap<String, SVal>;

fn bool_of(v: &SVal) -> bool {
    v.bv().is_true()
}

fn lit_bv(sort_bool: bool, b: Bv) -> SVal {
    if sort_bool { SVal::B(Sort::Bool, b) } else { SVal::B(Sort::BV(b.w), b) }
}

/// Evaluate a (sort-checked) term. `env` binds declared constants; defined functions are looked up
/// in `sc` and evaluated on demand; `locals` are let-bound values.
pub fn eval(t: &SExpr, sc: &Scopes, env: &ValEnv, locals: &mut Vec<(String, SVal)>) -> Result<SVal, String> {
    match t {
        SExpr::Atom(a) => match a {
            Atom::Symbol(s) if s == "true" => Ok(SVal::boolean(true)),
            Atom::Symbol(s) if s == "false" => Ok(SVal::boolean(false)),
            Atom::Symbol(s) => {
                if let Some((_, v)) = locals.iter().rev().find(|(n, _)| n == s) {
                    return Ok(v.clone());
                }
                if let Some(v) = env.get(s) {
                    return Ok(v.clone());
                }
                match sc.get(s) {
                    Some(Binding { def: Some(d), .. }) => {
                        let mut fresh = vec![];
                        eval(d, sc, env, &mut fresh)
                    }
                    Some(_) => Err(format!("no value for declared constant {}", s)),
                    None => Err(format!("unknown constant {}", s)),
                }
            }
            Atom::Bin(d) => Ok(lit_bv(false, Bv::new(d.len() as u32, BigUint::parse_bytes(d.as_bytes(), 2).unwrap()))),
            Atom::Hex(d) => Ok(lit_bv(false, Bv::new(4 * d.len() as u32, BigUint::parse_bytes(d.as_bytes(), 16).unwrap()))),
            other => Err(format!("cannot evaluate {:?}", other)),
        },
        SExpr::List(l) => {
            if l[0].sym() == Some("_") {
                let v = l[1].sym().unwrap();
                let num = BigUint::parse_bytes(v[2..].as_bytes(), 10).ok_or("bv literal")?;
                let w = l[2].numeral().unwrap() as u32;
                return Ok(lit_bv(false, Bv::new(w, num)));
            }
            if l[0].sym() == Some("let") {
                let binds = l[1].list().unwrap();
                let mut new = vec![];
                for b in binds {
                    let bl = b.list().unwrap();
                    let v = eval(&bl[1], sc, env, locals)?;
                    new.push((bl[0].sym().unwrap().to_string(), v));
                }
                let k = new.len();
                locals.extend(new);
                let r = eval(&l[2], sc, env, locals);
                locals.truncate(locals.len() - k);
                return r;
            }
            let args: Result<Vec<SVal>, String> = l[1..].iter().map(|a| eval(a, sc, env, locals)).collect();
            let args = args?;
            match &l[0] {
                SExpr::List(h) => {
                    if h[0].sym() == Some("as") {
                        let s = parse_sort(&h[2])?;
                        let Sort::Array(i, _) = &s else { return Err("as const".into()) };
                        let a = Arr::constant(i.width(), args[0].bv());
                        return Ok(SVal::A(s, a));
                    }
                    let name = h[1].sym().unwrap();
                    let idx: Vec<u64> = h[2..].iter().map(|x| x.numeral().unwrap()).collect();
                    let a = args[0].bv();
                    let r = match name {
                        "extract" => a.slice(idx[0] as u32, idx[1] as u32),
                        "zero_extend" => a.zext(idx[0] as u32),
                        "sign_extend" => a.sext(idx[0] as u32),
                        "repeat" => {
                            let mut r = a.clone();
                            for _ in 1..idx[0] {
                                r = r.concat(a);
                            }
                            r
                        }
                        "rotate_left" => {
                            let k = (idx[0] % a.w as u64) as u32;
                            if k == 0 { a.clone() } else { a.slice(a.w - k - 1, 0).concat(&a.slice(a.w - 1, a.w - k)) }
                        }
                        "rotate_right" => {
                            let k = (idx[0] % a.w as u64) as u32;
                            if k == 0 { a.clone() } else { a.slice(k - 1, 0).concat(&a.slice(a.w - 1, k)) }
                        }
                        _ => return Err("indexed op".into()),
                    };
                    Ok(lit_bv(false, r))
                }
                SExpr::Atom(Atom::Symbol(op)) => {
                    let bvr = |b: Bv| -> SVal { lit_bv(false, b) };
                    let fold = |f: &dyn Fn(&Bv, &Bv) -> Bv| -> Bv {
                        let mut acc = args[0].bv().clone();
                        for a in &args[1..] {
                            acc = f(&acc, a.bv());
                        }
                        acc
                    };
                    Ok(match op.as_str() {
                        "not" => SVal::boolean(!bool_of(&args[0])),
                        "and" => SVal::boolean(args.iter().all(bool_of)),
                        "or" => SVal::boolean(args.iter().any(bool_of)),
                        "xor" => SVal::boolean(args.iter().fold(false, |acc, a| acc ^ bool_of(a))),
                        "=>" => {
                            // right assoc: a => (b => c)
                            let mut acc = bool_of(args.last().unwrap());
                            for a in args[..args.len() - 1].iter().rev() {
                                acc = !bool_of(a) || acc;
                            }
                            SVal::boolean(acc)
                        }
                        "=" => SVal::boolean(args.windows(2).all(|w| sval_eq(&w[0], &w[1]))),
                        "distinct" => {
                            let mut ok = true;
                            for i in 0..args.len() {
                                for j in (i + 1)..args.len() {
                                    if sval_eq(&args[i], &args[j]) {
                                        ok = false;
                                    }
                                }
                            }
                            SVal::boolean(ok)
                        }
                        "ite" => {
                            if bool_of(&args[0]) { args[1].clone() } else { args[2].clone() }
                        }
                        "bvnot" => bvr(args[0].bv().not()),
                        "bvneg" => bvr(args[0].bv().neg()),
                        "bvand" => bvr(fold(&|a, b| a.and(b))),
                        "bvor" => bvr(fold(&|a, b| a.or(b))),
                        "bvxor" => bvr(fold(&|a, b| a.xor(b))),
                        "bvadd" => bvr(fold(&|a, b| a.add(b))),
                        "bvmul" => bvr(fold(&|a, b| a.mul(b))),
                        "bvsub" => bvr(args[0].bv().sub(args[1].bv())),
                        "bvudiv" => bvr(args[0].bv().udiv(args[1].bv())),
                        "bvurem" => bvr(args[0].bv().urem(args[1].bv())),
                        "bvsdiv" => bvr(args[0].bv().sdiv(args[1].bv())),
                        "bvsrem" => bvr(args[0].bv().srem(args[1].bv())),
                        "bvsmod" => bvr(args[0].bv().smod(args[1].bv())),
                        "bvshl" => bvr(args[0].bv().shl(args[1].bv())),
                        "bvlshr" => bvr(args[0].bv().lshr(args[1].bv())),
                        "bvashr" => bvr(args[0].bv().ashr(args[1].bv())),
                        "bvnand" => bvr(args[0].bv().and(args[1].bv()).not()),
                        "bvnor" => bvr(args[0].bv().or(args[1].bv()).not()),
                        "bvxnor" => bvr(args[0].bv().xor(args[1].bv()).not()),
                        "bvcomp" => bvr(Bv::bool(args[0].bv() == args[1].bv())),
                        "bvult" => SVal::boolean(args[1].bv().ugt(args[0].bv())),
                        "bvule" => SVal::boolean(args[1].bv().uge(args[0].bv())),
                        "bvugt" => SVal::boolean(args[0].bv().ugt(args[1].bv())),
                        "bvuge" => SVal::boolean(args[0].bv().uge(args[1].bv())),
                        "bvslt" => SVal::boolean(args[1].bv().sgt(args[0].bv())),
                        "bvsle" => SVal::boolean(args[1].bv().sge(args[0].bv())),
                        "bvsgt" => SVal::boolean(args[0].bv().sgt(args[1].bv())),
                        "bvsge" => SVal::boolean(args[0].bv().sge(args[1].bv())),
                        "concat" => bvr(args[0].bv().concat(args[1].bv())),
                        "select" => {
                            let Sort::Array(_, d) = args[0].sort() else { return Err("select".into()) };
                            let v = args[0].arr().select(args[1].bv());
                            SVal::B((**d).clone(), v)
                        }
                        "store" => SVal::A(args[0].sort().clone(), args[0].arr().store(args[1].bv(), args[2].bv())),
                        other => return Err(format!("cannot evaluate function {}", other)),
                    })
                }
                _ => Err("bad head".into()),
            }
        }
    }
}

/// Evaluates every defined function of the scopes in definition order and adds the values to `env`
/// (so that later look-ups do not re-evaluate definition chains).
pub fn eval_definitions(sc: &Scopes, env: &mut ValEnv) -> Result<(), String> {
    for name in sc.order.iter() {
        if env.contains_key(name) {
            continue;
        }
        if let Some(Binding { def: Some(d), .. }) = sc.get(name) {
            let v = eval(d, sc, env, &mut vec![]).map_err(|e| format!("definition of {}: {}", name, e))?;
            env.insert(name.clone(), v);
        }
    }
    Ok(())
}

pub fn sval_eq(a: &SVal, b: &SVal) -> bool {
    match (a, b) {
        (SVal::B(_, x), SVal::B(_, y)) => x == y,
        (SVal::A(_, x), SVal::A(_, y)) => x.ext_eq(y),
        _ => false,
    }
}

// ---------------------------------------------------------------------------------------------
// printing
// ---------------------------------------------------------------------------------------------

pub fn needs_quoting(name: &str) -> bool {
    name.is_empty()
        || name.chars().next().unwrap().is_ascii_digit()
        || !name.chars().all(is_symbol_char)
}

pub fn print_symbol(name: &str) -> String {
    if needs_quoting(name) { format!("|{}|", name) } else { name.to_string() }
}

/// style: 0 binary, 1 hex when possible, 2 (_ bvN w)
pub fn print_bv(sort: &Sort, b: &Bv, style: u32) -> String {
    match sort {
        Sort::Bool => if b.is_true() { "true".into() } else { "false".into() },
        _ => match style % 3 {
            1 if b.w % 4 == 0 => {
                let s = b.v.to_str_radix(16);
                format!("#x{}{}", "0".repeat((b.w / 4) as usize - s.len()), s)
            }
            2 => format!("(_ bv{} {})", b.v.to_str_radix(10), b.w),
            _ => format!("#b{}", b.to_bit_str()),
        },
    }
}

pub fn print_value(v: &SVal, style: u32) -> String {
    match v {
        SVal::B(s, b) => print_bv(s, b, style),
        SVal::A(s, a) => {
            let Sort::Array(i, d) = s else { unreachable!() };
            let mut out = format!("((as const {}) {})", s.to_smt(), print_bv(d, &Bv::new(a.dw, a.default.clone()), style));
            for (k, val) in a.map.iter() {
                out = format!(
                    "(store {} {} {})",
                    out,
                    print_bv(i, &Bv::new(a.iw, k.clone()), style),
                    print_bv(d, &Bv::new(a.dw, val.clone()), style)
                );
            }
            out
        }
    }
}

pub fn print_sexpr(e: &SExpr) -> String {
    match e {
        SExpr::Atom(a) => match a {
            Atom::Symbol(s) => print_symbol(s),
            Atom::Keyword(k) => format!(":{}", k),
            Atom::Numeral(n) | Atom::Decimal(n) => n.clone(),
            Atom::Bin(b) => format!("#b{}", b),
            Atom::Hex(h) => format!("#x{}", h),
            Atom::Str(s) => format!("\"{}\"", s.replace('"', "\"\"")),
        },
        SExpr::List(l) => format!("({})", l.iter().map(print_sexpr).collect::<Vec<_>>().join(" ")),
    }
}

// ---------------------------------------------------------------------------------------------
// command level checking (script conformance)
// ---------------------------------------------------------------------------------------------

#[derive(Clone, Debug, PartialEq, Eq)]
pub enum CmdKind {
    SetLogic,
    SetOption,
    SetInfo,
    DeclareConst(String),
    DefineFun(String),
    Assert,
    CheckSat,
    CheckSatAssuming(usize),
    Push(u64),
    Pop(u64),
    GetValue(usize),
    GetUnsatAssumptions,
    GetModel,
    Exit,
}

#[derive(Clone, Copy, Debug, Default)]
pub struct Profile {
    pub no_check_sat_assuming: bool,
    pub no_const_array: bool,
    /// check-sat-assuming arguments must be (possibly negated) Bool constants, as the standard says
    pub strict_assumption_literals: bool,
}

fn contains_as_const(t: &SExpr) -> bool {
    match t {
        SExpr::Atom(_) => false,
        SExpr::List(l) => {
            (l.first().and_then(|x| x.sym()) == Some("as") && l.get(1).and_then(|x| x.sym()) == Some("const"))
                || l.iter().any(contains_as_const)
        }
    }
}

/// Check one command against the scopes, updating them. Returns what it was.
pub fn check_command(cmd: &SExpr, sc: &mut Scopes, profile: &Profile) -> Result<CmdKind, String> {
    let l = cmd.list().ok_or("command must be a list")?;
    let name = l.first().and_then(|x| x.sym()).ok_or("command name")?;
    let term = |t: &SExpr, sc: &Scopes| -> Result<Sort, String> {
        if profile.no_const_array && contains_as_const(t) {
            return Err("constant arrays (as const) are not supported by this solver".into());
        }
        let mut locals = vec![];
        sort_of(t, sc, &mut locals)
    };
    match name {
        "set-logic" => {
            if l.len() == 2 && l[1].sym().is_some() { Ok(CmdKind::SetLogic) } else { Err("set-logic".into()) }
        }
        "set-option" | "set-info" => {
            if l.len() >= 2 && matches!(l[1], SExpr::Atom(Atom::Keyword(_))) {
                Ok(if name == "set-option" { CmdKind::SetOption } else { CmdKind::SetInfo })
            } else {
                Err(format!("{} needs a keyword", name))
            }
        }
        "declare-const" => {
            let [_, n, s] = l else { return Err("declare-const arity".into()) };
            let n = n.sym().ok_or("declare-const name")?;
            let s = parse_sort(s)?;
            sc.declare(n, Binding { sort: s, def: None })?;
            Ok(CmdKind::DeclareConst(n.to_string()))
        }
        "declare-fun" => {
            let [_, n, a, s] = l else { return Err("declare-fun arity".into()) };
            if a.list().map(|x| !x.is_empty()).unwrap_or(true) {
                return Err("reference-limit: only nullary declare-fun is modelled by the reference front end".into());
            }
            let n = n.sym().ok_or("declare-fun name")?;
            let s = parse_sort(s)?;
            sc.declare(n, Binding { sort: s, def: None })?;
            Ok(CmdKind::DeclareConst(n.to_string()))
        }
        "define-fun" | "define-const" => {
            let (n, s, body) = if name == "define-fun" {
                let [_, n, a, s, b] = l else { return Err("define-fun arity".into()) };
                if a.list().map(|x| !x.is_empty()).unwrap_or(true) {
                    return Err("reference-limit: only nullary define-fun is modelled by the reference front end".into());
                }
                (n, s, b)
            } else {
                let [_, n, s, b] = l else { return Err("define-const arity".into()) };
                (n, s, b)
            };
            let n = n.sym().ok_or("define-fun name")?;
            let s = parse_sort(s)?;
            let bs = term(body, sc)?;
            if bs != s {
                return Err(format!(
                    "define-fun {}: declared sort {} but body has sort {}",
                    n,
                    s.to_smt(),
                    bs.to_smt()
                ));
            }
            sc.declare(n, Binding { sort: s, def: Some(body.clone()) })?;
            Ok(CmdKind::DefineFun(n.to_string()))
        }
        "assert" => {
            let [_, t] = l else { return Err("assert arity".into()) };
            let s = term(t, sc)?;
            if s != Sort::Bool {
                return Err(format!("assert needs a Bool term, got {}", s.to_smt()));
            }
            Ok(CmdKind::Assert)
        }
        "check-sat" => {
            if l.len() == 1 { Ok(CmdKind::CheckSat) } else { Err("check-sat arity".into()) }
        }
        "check-sat-assuming" => {
            if profile.no_check_sat_assuming {
                return Err("check-sat-assuming is not supported by this solver".into());
            }
            let [_, ts] = l else { return Err("check-sat-assuming arity".into()) };
            let ts = ts.list().ok_or("check-sat-assuming needs a list")?;
            for t in ts {
                let s = term(t, sc)?;
                if s != Sort::Bool {
                    return Err(format!("assumption must be Bool, got {}", s.to_smt()));
                }
                if profile.strict_assumption_literals {
                    let ok = match t {
                        SExpr::Atom(Atom::Symbol(_)) => true,
                        SExpr::List(x) => {
                            x.len() == 2 && x[0].sym() == Some("not") && matches!(x[1], SExpr::Atom(Atom::Symbol(_)))
                        }
                        _ => false,
                    };
                    if !ok {
                        return Err("assumption is not a propositional literal".into());
                    }
                }
            }
            Ok(CmdKind::CheckSatAssuming(ts.len()))
        }
        "push" | "pop" => {
            let n = if l.len() == 1 { 1 } else { l[1].numeral().ok_or("push/pop numeral")? };
            for _ in 0..n {
                if name == "push" {
                    sc.push();
                } else {
                    sc.pop()?;
                }
            }
            Ok(if name == "push" { CmdKind::Push(n) } else { CmdKind::Pop(n) })
        }
        "get-value" => {
            let [_, ts] = l else { return Err("get-value arity".into()) };
            let ts = ts.list().ok_or("get-value needs a list")?;
            if ts.is_empty() {
                return Err("get-value needs at least one term".into());
            }
            for t in ts {
                term(t, sc)?;
            }
            Ok(CmdKind::GetValue(ts.len()))
        }
        "get-unsat-assumptions" => Ok(CmdKind::GetUnsatAssumptions),
        "get-model" => Ok(CmdKind::GetModel),
        "exit" => Ok(CmdKind::Exit),
        // standard commands the reference front end does not model: harness limit, not a defect
        "reset" | "reset-assertions" | "echo" | "get-info" | "get-option" | "get-unsat-core" | "get-assignment"
        | "get-assertions" | "get-proof" | "declare-sort" | "define-sort" | "define-fun-rec" | "define-funs-rec"
        | "declare-datatype" | "declare-datatypes" | "check-sat-using" => {
            Err(format!("reference-limit: command {} is not modelled by the reference front end", other_name(name)))
        }
        other => Err(format!("unsupported command {}", other)),
    }
}

fn other_name(n: &str) -> &str {
    n
}

pub fn zero_value(s: &Sort) -> SVal {
    match s {
        Sort::Bool => SVal::boolean(false),
        Sort::BV(w) => SVal::B(s.clone(), Bv::zero(*w)),
        Sort::Array(i, d) => SVal::A(s.clone(), Arr::constant(i.width(), &Bv::zero(d.width()))),
    }
}

#[allow(dead_code)]
fn unused() {
    let _ = BigUint::one() + BigUint::zero();
}

#[cfg(test)]
mod tests {
    use super::*;
    #[test]
    fn lex_and_check() {
        let mut sc = Scopes::new();
        let p = Profile::default();
        for c in read_all("(declare-const a (_ BitVec 4)) (declare-const |x y| Bool) (define-fun f () Bool (bvult a #x3)) (assert (and f |x y|)) (check-sat-assuming (f (not |x y|) ))").unwrap() {
            check_command(&c, &mut sc, &p).unwrap();
        }
        assert!(check_command(&read_one("(assert (= a #b1))").unwrap(), &mut sc, &p).is_err());
        assert!(check_command(&read_one("(declare-const a Bool)").unwrap(), &mut sc, &p).is_err());
        assert!(check_command(&read_one("(assert (bvult a f))").unwrap(), &mut sc, &p).is_err());
        let mut env = ValEnv::new();
        env.insert("a".into(), SVal::B(Sort::BV(4), Bv::from_u64(4, 2)));
        env.insert("x y".into(), SVal::boolean(true));
        let t = read_one("(let ((z (bvadd a #x1))) (and f (= z #b0011)))").unwrap();
        let mut loc = vec![];
        assert_eq!(sort_of(&t, &sc, &mut loc).unwrap(), Sort::Bool);
        assert!(bool_of(&eval(&t, &sc, &env, &mut vec![]).unwrap()));
    }
    #[test]
    fn arrays() {
        let sc = Scopes::new();
        let t = read_one("(select (store ((as const (Array Bool (_ BitVec 2))) #b01) true #b11) false)").unwrap();
        assert_eq!(sort_of(&t, &sc, &mut vec![]).unwrap(), Sort::BV(2));
        let v = eval(&t, &sc, &ValEnv::new(), &mut vec![]).unwrap();
        assert_eq!(v.bv(), &Bv::from_u64(2, 1));
    }
}
