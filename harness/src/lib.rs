pub mod btorgen;
pub mod engine;
pub mod gen_expr;
pub mod props;
pub mod refeval;
pub mod refval;
pub mod smtref;
pub mod tape;
