//! Choice tape: every generated case is a pure function of a byte string.
//! An exhausted tape yields zeros, and all decoders are written so that zero is
//! the simplest choice. Shared by proptest (vec<u8> strategy), libFuzzer and replay.

use num_bigint::BigUint;
use num_traits::{One, Zero};

#[derive(Clone)]
pub struct Tape<'a> {
    data: &'a [u8],
    pos: usize,
}

impl<'a> Tape<'a> {
    pub fn new(data: &'a [u8]) -> Self {
        Self { data, pos: 0 }
    }
    pub fn exhausted(&self) -> bool {
        self.pos >= self.data.len()
    }
    pub fn remaining(&self) -> usize {
        self.data.len().saturating_sub(self.pos)
    }
    pub fn byte(&mut self) -> u8 {
        let b = self.data.get(self.pos).copied().unwrap_or(0);
        self.pos += 1;
        b
    }
    pub fn u16(&mut self) -> u16 {
        let hi = self.byte() as u16;
        let lo = self.byte() as u16;
        (hi << 8) | lo
    }
    pub fn u64(&mut self) -> u64 {
        let mut v = 0u64;
        for _ in 0..8 {
            v = (v << 8) | self.byte() as u64;
        }
        v
    }
    /// value in 0..n, monotone in the byte(s) so that shrinking bytes shrinks the choice
    pub fn below(&mut self, n: u32) -> u32 {
        if n <= 1 {
            return 0;
        }
        if n <= 256 {
            ((self.byte() as u32) * n) >> 8
        } else {
            (((self.u16() as u64) * (n as u64)) >> 16) as u32
        }
    }
    /// inclusive range
    pub fn range(&mut self, lo: u32, hi: u32) -> u32 {
        debug_assert!(hi >= lo);
        lo + self.below(hi - lo + 1)
    }
    /// true with probability ~ num/256 (false when the tape is exhausted)
    pub fn chance(&mut self, num: u32) -> bool {
        (self.byte() as u32) >= 256 - num.min(256) && num > 0
    }
    pub fn flag(&mut self) -> bool {
        self.byte() & 1 == 1
    }
    /// weighted choice, index 0 is the "simplest"
    pub fn weighted(&mut self, weights: &[u32]) -> usize {
        let total: u32 = weights.iter().sum();
        if total == 0 {
            return 0;
        }
        let mut x = self.below(total);
        for (i, w) in weights.iter().enumerate() {
            if x < *w {
                return i;
            }
            x -= *w;
        }
        weights.len() - 1
    }
    pub fn pick<'b, T>(&mut self, items: &'b [T]) -> &'b T {
        let i = self.below(items.len() as u32) as usize;
        &items[i]
    }
    /// Bit pattern of the given width with interesting shapes.
    pub fn bits(&mut self, width: u32) -> BigUint {
        let shape = self.below(14);
        self.bits_shape(width, shape)
    }
    pub fn bits_shape(&mut self, width: u32, shape: u32) -> BigUint {
        let ones = ones(width);
        let v = match shape {
            0 => BigUint::zero(),
            1 => BigUint::one(),
            2 => ones.clone(),
            3 => BigUint::one() << (width - 1), // sign bit
            4 => {
                // one-hot
                let p = self.below(width);
                BigUint::one() << p
            }
            5 => {
                // low mask
                let p = self.below(width + 1);
                ones_n(p)
            }
            6 => {
                // high mask
                let p = self.below(width + 1);
                ones.clone() ^ ones_n(p)
            }
            7 => {
                // two intervals
                let a = self.below(width + 1);
                let b = self.below(width + 1);
                let c = self.below(width + 1);
                (ones_n(a) ^ ones_n(b)) | (ones.clone() ^ ones_n(c))
            }
            8 => {
                // small number
                BigUint::from(self.byte())
            }
            9 => {
                // interesting shift amounts / boundaries
                let opts: [u64; 8] = [
                    width as u64,
                    width as u64 - 1,
                    width as u64 + 1,
                    1u64 << 32,
                    (1u64 << 32) + 1,
                    1u64 << 63,
                    64,
                    63,
                ];
                BigUint::from(opts[self.below(8) as usize])
            }
            10 => ones.clone() - BigUint::one().min(ones.clone()), // all ones minus 1
            11 => (BigUint::one() << (width - 1)) - BigUint::one().min(BigUint::one() << (width - 1)), // max signed
            _ => {
                // random bytes
                let nbytes = width.div_ceil(8) as usize;
                let mut bytes = Vec::with_capacity(nbytes);
                for _ in 0..nbytes {
                    bytes.push(self.byte());
                }
                BigUint::from_bytes_le(&bytes)
            }
        };
        v & ones
    }
}

pub fn ones(width: u32) -> BigUint {
    ones_n(width)
}

pub fn ones_n(n: u32) -> BigUint {
    if n == 0 {
        BigUint::zero()
    } else {
        (BigUint::one() << n) - BigUint::one()
    }
}

/// deterministic PRNG (splitmix64) for choices that need not shrink (assignment sampling);
/// always seeded from a hash of the tape or from VERIF_SEED so that runs are reproducible.
#[derive(Clone)]
pub struct SplitMix(pub u64);

impl SplitMix {
    pub fn next(&mut self) -> u64 {
        self.0 = self.0.wrapping_add(0x9E3779B97F4A7C15);
        let mut z = self.0;
        z = (z ^ (z >> 30)).wrapping_mul(0xBF58476D1CE4E5B9);
        z = (z ^ (z >> 27)).wrapping_mul(0x94D049BB133111EB);
        z ^ (z >> 31)
    }
    pub fn below(&mut self, n: u64) -> u64 {
        if n == 0 { 0 } else { self.next() % n }
    }
    pub fn bits(&mut self, width: u32) -> BigUint {
        let shape = self.below(16);
        let o = ones(width);
        let v = match shape {
            0 => BigUint::zero(),
            1 => BigUint::one(),
            2 => o.clone(),
            3 => BigUint::one() << (width - 1),
            4 => BigUint::one() << (self.below(width as u64) as u32),
            5 => ones_n(self.below(width as u64 + 1) as u32),
            6 => o.clone() ^ ones_n(self.below(width as u64 + 1) as u32),
            7 => BigUint::from(self.below(256)),
            8 => {
                let opts: [u64; 6] = [width as u64, width as u64 - 1, width as u64 + 1, 1 << 32, 64, 63];
                BigUint::from(opts[self.below(6) as usize])
            }
            _ => {
                let mut v = BigUint::zero();
                for _ in 0..width.div_ceil(64) {
                    v = (v << 64) | BigUint::from(self.next());
                }
                v
            }
        };
        v & o
    }
}

pub fn hash_bytes(data: &[u8]) -> u64 {
    // FNV-1a 64
    let mut h: u64 = 0xcbf29ce484222325;
    for b in data {
        h ^= *b as u64;
        h = h.wrapping_mul(0x100000001b3);
    }
    h
}
