//! Reference values: bit-vectors as (width, BigUint < 2^width), arrays as default + BTreeMap with
//! extensional equality. Shares no code with `baa`.

use crate::tape::ones;
use baa::{ArrayMutOps, ArrayOps, ArrayValue, BitVecOps, BitVecValue};
use num_bigint::BigUint;
use num_traits::{One, ToPrimitive, Zero};
use std::collections::BTreeMap;

#[derive(Clone, Debug, PartialEq, Eq, Hash)]
pub struct Bv {
    pub w: u32,
    pub v: BigUint,
}

impl Bv {
    pub fn new(w: u32, v: BigUint) -> Self {
        debug_assert!(w > 0);
        Bv { w, v: v & ones(w) }
    }
    pub fn from_u64(w: u32, v: u64) -> Self {
        Bv::new(w, BigUint::from(v))
    }
    pub fn zero(w: u32) -> Self {
        Bv { w, v: BigUint::zero() }
    }
    pub fn ones(w: u32) -> Self {
        Bv { w, v: ones(w) }
    }
    pub fn bool(b: bool) -> Self {
        Bv { w: 1, v: if b { BigUint::one() } else { BigUint::zero() } }
    }
    pub fn is_true(&self) -> bool {
        !self.v.is_zero()
    }
    pub fn bit(&self, i: u32) -> bool {
        self.v.bit(i as u64)
    }
    pub fn msb(&self) -> bool {
        self.bit(self.w - 1)
    }
    pub fn modulus(&self) -> BigUint {
        BigUint::one() << self.w
    }
    pub fn to_bit_str(&self) -> String {
        let s = self.v.to_str_radix(2);
        let mut out = String::with_capacity(self.w as usize);
        for _ in s.len()..self.w as usize {
            out.push('0');
        }
        out.push_str(&s);
        out
    }
    pub fn to_baa(&self) -> BitVecValue {
        BitVecValue::from_bit_str(&self.to_bit_str()).unwrap()
    }
    /// Reads the numeric value out of a baa value *including* any bits above the width (so that
    /// non-canonical representations are visible).
    pub fn raw_from_words(words: &[u64]) -> BigUint {
        let mut v = BigUint::zero();
        for w in words.iter().rev() {
            v = (v << 64) | BigUint::from(*w);
        }
        v
    }
    pub fn from_baa(b: &impl BitVecOps) -> Self {
        Bv::new(b.width(), Self::raw_from_words(b.words()))
    }
    pub fn short(&self) -> String {
        format!("{}'x{}", self.w, self.v.to_str_radix(16))
    }
    pub fn to_u64(&self) -> Option<u64> {
        self.v.to_u64()
    }

    // ---- SMT-LIB operations ----
    pub fn not(&self) -> Bv {
        Bv::new(self.w, &self.v ^ ones(self.w))
    }
    pub fn neg(&self) -> Bv {
        Bv::new(self.w, self.modulus() - &self.v)
    }
    pub fn and(&self, o: &Bv) -> Bv {
        Bv::new(self.w, &self.v & &o.v)
    }
    pub fn or(&self, o: &Bv) -> Bv {
        Bv::new(self.w, &self.v | &o.v)
    }
    pub fn xor(&self, o: &Bv) -> Bv {
        Bv::new(self.w, &self.v ^ &o.v)
    }
    pub fn add(&self, o: &Bv) -> Bv {
        Bv::new(self.w, &self.v + &o.v)
    }
    pub fn sub(&self, o: &Bv) -> Bv {
        Bv::new(self.w, self.modulus() + &self.v - &o.v)
    }
    pub fn mul(&self, o: &Bv) -> Bv {
        Bv::new(self.w, &self.v * &o.v)
    }
    pub fn udiv(&self, o: &Bv) -> Bv {
        if o.v.is_zero() { Bv::ones(self.w) } else { Bv::new(self.w, &self.v / &o.v) }
    }
    pub fn urem(&self, o: &Bv) -> Bv {
        if o.v.is_zero() { self.clone() } else { Bv::new(self.w, &self.v % &o.v) }
    }
    pub fn sdiv(&self, o: &Bv) -> Bv {
        match (self.msb(), o.msb()) {
            (false, false) => self.udiv(o),
            (true, false) => self.neg().udiv(o).neg(),
            (false, true) => self.udiv(&o.neg()).neg(),
            (true, true) => self.neg().udiv(&o.neg()),
        }
    }
    pub fn srem(&self, o: &Bv) -> Bv {
        match (self.msb(), o.msb()) {
            (false, false) => self.urem(o),
            (true, false) => self.neg().urem(o).neg(),
            (false, true) => self.urem(&o.neg()),
            (true, true) => self.neg().urem(&o.neg()).neg(),
        }
    }
    pub fn smod(&self, o: &Bv) -> Bv {
        let abs_s = if self.msb() { self.neg() } else { self.clone() };
        let abs_t = if o.msb() { o.neg() } else { o.clone() };
        let u = abs_s.urem(&abs_t);
        if u.v.is_zero() {
            u
        } else {
            match (self.msb(), o.msb()) {
                (false, false) => u,
                (true, false) => u.neg().add(o),
                (false, true) => u.add(o),
                (true, true) => u.neg(),
            }
        }
    }
    pub fn shl(&self, o: &Bv) -> Bv {
        if o.v >= BigUint::from(self.w) {
            Bv::zero(self.w)
        } else {
            Bv::new(self.w, &self.v << o.v.to_u32().unwrap())
        }
    }
    pub fn lshr(&self, o: &Bv) -> Bv {
        if o.v >= BigUint::from(self.w) {
            Bv::zero(self.w)
        } else {
            Bv::new(self.w, &self.v >> o.v.to_u32().unwrap())
        }
    }
    pub fn ashr(&self, o: &Bv) -> Bv {
        let neg = self.msb();
        if o.v >= BigUint::from(self.w) {
            if neg { Bv::ones(self.w) } else { Bv::zero(self.w) }
        } else {
            let s = o.v.to_u32().unwrap();
            let shifted = &self.v >> s;
            if neg {
                let fill = ones(self.w) ^ ones(self.w - s);
                Bv::new(self.w, shifted | fill)
            } else {
                Bv::new(self.w, shifted)
            }
        }
    }
    pub fn ugt(&self, o: &Bv) -> bool {
        self.v > o.v
    }
    pub fn uge(&self, o: &Bv) -> bool {
        self.v >= o.v
    }
    fn signed_key(&self) -> BigUint {
        // flip the sign bit: order-preserving map from signed to unsigned
        &self.v ^ (BigUint::one() << (self.w - 1))
    }
    pub fn sgt(&self, o: &Bv) -> bool {
        self.signed_key() > o.signed_key()
    }
    pub fn sge(&self, o: &Bv) -> bool {
        self.signed_key() >= o.signed_key()
    }
    pub fn concat(&self, lo: &Bv) -> Bv {
        Bv::new(self.w + lo.w, (&self.v << lo.w) | &lo.v)
    }
    pub fn slice(&self, hi: u32, lo: u32) -> Bv {
        Bv::new(hi - lo + 1, &self.v >> lo)
    }
    pub fn zext(&self, by: u32) -> Bv {
        Bv::new(self.w + by, self.v.clone())
    }
    pub fn sext(&self, by: u32) -> Bv {
        if self.msb() {
            let fill = ones(self.w + by) ^ ones(self.w);
            Bv::new(self.w + by, &self.v | fill)
        } else {
            Bv::new(self.w + by, self.v.clone())
        }
    }
}

#[derive(Clone, Debug)]
pub struct Arr {
    pub iw: u32,
    pub dw: u32,
    pub default: BigUint,
    pub map: BTreeMap<BigUint, BigUint>,
}

impl Arr {
    pub fn constant(iw: u32, default: &Bv) -> Self {
        Arr { iw, dw: default.w, default: default.v.clone(), map: BTreeMap::new() }
    }
    pub fn select(&self, idx: &Bv) -> Bv {
        debug_assert_eq!(idx.w, self.iw);
        Bv::new(self.dw, self.map.get(&idx.v).cloned().unwrap_or_else(|| self.default.clone()))
    }
    pub fn store(&self, idx: &Bv, data: &Bv) -> Arr {
        debug_assert_eq!(idx.w, self.iw);
        debug_assert_eq!(data.w, self.dw);
        let mut out = self.clone();
        out.map.insert(idx.v.clone(), data.v.clone());
        out
    }
    fn covers_all(&self) -> bool {
        self.iw < 64 && (self.map.len() as u128) >= (1u128 << self.iw)
    }
    /// extensional equality
    pub fn ext_eq(&self, o: &Arr) -> bool {
        if self.iw != o.iw || self.dw != o.dw {
            return false;
        }
        for k in self.map.keys().chain(o.map.keys()) {
            let a = self.map.get(k).unwrap_or(&self.default);
            let b = o.map.get(k).unwrap_or(&o.default);
            if a != b {
                return false;
            }
        }
        // union of keys
        let mut union: std::collections::BTreeSet<&BigUint> = self.map.keys().collect();
        union.extend(o.map.keys());
        let all_covered = self.iw < 64 && (union.len() as u128) >= (1u128 << self.iw);
        all_covered || self.default == o.default
    }
    pub fn to_baa(&self, dense: bool) -> ArrayValue {
        let d = Bv::new(self.dw, self.default.clone()).to_baa();
        let mut a = if dense && self.iw <= 12 {
            ArrayValue::new_dense(self.iw, &d)
        } else {
            ArrayValue::new_sparse(self.iw, &d)
        };
        // entries equal to the default are skipped for sparse arrays (semantically identical and it
        // keeps baa from comparing keys, which is unimplemented for index widths > 64)
        let sparse = a.is_sparse();
        for (k, v) in self.map.iter() {
            if sparse && *v == self.default {
                continue;
            }
            a.store(&Bv::new(self.iw, k.clone()).to_baa(), &Bv::new(self.dw, v.clone()).to_baa());
        }
        a
    }
    /// Compare against a baa array by select over all indices (iw <= 10) or keys + probes.
    pub fn agrees_with_baa(&self, b: &ArrayValue, probes: &[BigUint]) -> Result<(), String> {
        if b.index_width() != self.iw || b.data_width() != self.dw {
            return Err(format!(
                "array type mismatch: got [{} -> {}], expected [{} -> {}]",
                b.index_width(),
                b.data_width(),
                self.iw,
                self.dw
            ));
        }
        let check = |k: &BigUint| -> Result<(), String> {
            let idx = Bv::new(self.iw, k.clone());
            let got = b.select(&idx.to_baa());
            let exp = self.select(&idx);
            let raw = Bv::raw_from_words(got.words());
            if got.width() != self.dw || raw != exp.v {
                return Err(format!(
                    "array[{}] = {} (raw {:x}) expected {}",
                    idx.short(),
                    got.to_bit_str(),
                    raw,
                    exp.short()
                ));
            }
            Ok(())
        };
        if self.iw <= 10 {
            for i in 0..(1u64 << self.iw) {
                check(&BigUint::from(i))?;
            }
        } else {
            for k in self.map.keys() {
                check(k)?;
            }
            for p in probes {
                check(&(p & ones(self.iw)))?;
            }
        }
        Ok(())
    }
    pub fn short(&self) -> String {
        let entries: Vec<String> =
            self.map.iter().map(|(k, v)| format!("{:x}:{:x}", k, v)).collect();
        format!("[{}->{}|def={:x}|{}]", self.iw, self.dw, self.default, entries.join(","))
    }
    pub fn normalized(&self) -> Arr {
        // drop entries equal to the default, unless all indices are covered
        if self.covers_all() {
            return self.clone();
        }
        let mut out = self.clone();
        out.map.retain(|_, v| *v != self.default);
        out
    }
}

#[derive(Clone, Debug)]
pub enum Val {
    Bv(Bv),
    Arr(Arr),
}

impl Val {
    pub fn bv(&self) -> &Bv {
        match self {
            Val::Bv(b) => b,
            Val::Arr(_) => panic!("harness: expected bit-vector value"),
        }
    }
    pub fn arr(&self) -> &Arr {
        match self {
            Val::Arr(a) => a,
            Val::Bv(_) => panic!("harness: expected array value"),
        }
    }
    pub fn sem_eq(&self, o: &Val) -> bool {
        match (self, o) {
            (Val::Bv(a), Val::Bv(b)) => a == b,
            (Val::Arr(a), Val::Arr(b)) => a.ext_eq(b),
            _ => false,
        }
    }
    pub fn short(&self) -> String {
        match self {
            Val::Bv(b) => b.short(),
            Val::Arr(a) => a.short(),
        }
    }
}

#[cfg(test)]
mod tests {
    use super::*;
    fn b(w: u32, v: u64) -> Bv {
        Bv::from_u64(w, v)
    }
    #[test]
    fn div_rem_vectors() {
        // 4-bit: -7 = 9, 2
        assert_eq!(b(4, 9).sdiv(&b(4, 2)), b(4, 13)); // -7/2 = -3 -> 13
        assert_eq!(b(4, 9).srem(&b(4, 2)), b(4, 15)); // -7 rem 2 = -1
        assert_eq!(b(4, 9).smod(&b(4, 2)), b(4, 1)); // -7 mod 2 = 1
        assert_eq!(b(4, 7).smod(&b(4, 14)), b(4, 15)); // 7 mod -2 = -1
        assert_eq!(b(4, 7).sdiv(&b(4, 0)), b(4, 15));
        assert_eq!(b(4, 9).sdiv(&b(4, 0)), b(4, 1));
        assert_eq!(b(4, 9).srem(&b(4, 0)), b(4, 9));
        assert_eq!(b(4, 9).smod(&b(4, 0)), b(4, 9));
        assert_eq!(b(4, 5).udiv(&b(4, 0)), b(4, 15));
        assert_eq!(b(4, 5).urem(&b(4, 0)), b(4, 5));
    }
    #[test]
    fn shifts_and_cmp() {
        assert_eq!(b(4, 9).ashr(&b(4, 1)), b(4, 12));
        assert_eq!(b(4, 9).ashr(&b(4, 4)), b(4, 15));
        assert_eq!(b(4, 5).ashr(&b(4, 9)), b(4, 0));
        assert_eq!(b(4, 9).lshr(&b(4, 3)), b(4, 1));
        assert_eq!(b(4, 9).shl(&b(4, 1)), b(4, 2));
        assert!(b(4, 1).sgt(&b(4, 9)));
        assert!(!b(4, 9).sgt(&b(4, 9)));
        assert!(b(4, 9).sge(&b(4, 9)));
        assert!(b(4, 9).ugt(&b(4, 1)));
        assert_eq!(b(4, 9).sext(2), b(6, 0b111001));
        assert_eq!(b(4, 9).zext(2), b(6, 0b001001));
        assert_eq!(b(4, 9).concat(&b(2, 1)), b(6, 0b100101));
        assert_eq!(b(6, 0b100101).slice(4, 1), b(4, 0b0010));
        assert_eq!(b(4, 0).neg(), b(4, 0));
        assert_eq!(b(4, 1).neg(), b(4, 15));
        assert_eq!(b(4, 3).sub(&b(4, 5)), b(4, 14));
    }
    #[test]
    fn array_ext() {
        let a = Arr::constant(1, &b(2, 0)).store(&b(1, 0), &b(2, 1)).store(&b(1, 1), &b(2, 1));
        let c = Arr::constant(1, &b(2, 1));
        assert!(a.ext_eq(&c));
        let d = Arr::constant(2, &b(2, 0)).store(&b(2, 0), &b(2, 1));
        let e = Arr::constant(2, &b(2, 1));
        assert!(!d.ext_eq(&e));
    }
}
