//! Helpers shared by the system-level properties: positional equivalence of two systems living in
//! one Context, random environments, symbol scans.

use crate::refeval::{self, Env};
use crate::refval::Val;
use crate::tape::SplitMix;
use patronus::expr::{Context, ExprRef, Type, TypeCheck};
use patronus::system::TransitionSystem;

pub fn random_val(rng: &mut SplitMix, tpe: Type) -> Val {
    use crate::refval::{Arr, Bv};
    match tpe {
        Type::BV(w) => Val::Bv(Bv::new(w, rng.bits(w))),
        Type::Array(at) => {
            let mut a = Arr::constant(at.index_width, &Bv::new(at.data_width, rng.bits(at.data_width)));
            for _ in 0..rng.below(4) {
                a = a.store(
                    &Bv::new(at.index_width, rng.bits(at.index_width)),
                    &Bv::new(at.data_width, rng.bits(at.data_width)),
                );
            }
            Val::Arr(a)
        }
    }
}

/// all symbols of a system in positional order: inputs then states
pub fn positional_symbols(sys: &TransitionSystem) -> Vec<ExprRef> {
    let mut v: Vec<ExprRef> = sys.inputs.clone();
    v.extend(sys.states.iter().map(|s| s.symbol));
    v
}

/// total number of bits of all symbols (arrays as full tables), saturating
pub fn symbol_bits(ctx: &Context, syms: &[ExprRef]) -> u64 {
    syms.iter()
        .map(|s| match s.get_type(ctx) {
            Type::BV(w) => w as u64,
            Type::Array(a) => {
                if a.index_width >= 16 { 1 << 30 } else { (1u64 << a.index_width) * a.data_width as u64 }
            }
        })
        .sum()
}

/// environments for system `a` (by its symbols); exhaustive when the symbols total <= `exh_bits`
pub fn environments(ctx: &Context, syms: &[ExprRef], rng: &mut SplitMix, exh_bits: u32, samples: usize) -> (Vec<Env>, bool) {
    environments_for(ctx, syms, &[], rng, exh_bits, samples)
}

/// like `environments`, sampled assignments also draw on the literals below `roots`
pub fn environments_for(
    ctx: &Context,
    syms: &[ExprRef],
    roots: &[ExprRef],
    rng: &mut SplitMix,
    exh_bits: u32,
    samples: usize,
) -> (Vec<Env>, bool) {
    // a symbol may occur twice (input that is also a state): dedupe
    let mut uniq: Vec<ExprRef> = vec![];
    for s in syms {
        if !uniq.contains(s) {
            uniq.push(*s);
        }
    }
    let dict = crate::props::c01::dictionary(ctx, roots);
    crate::props::c01::assignments_with(ctx, &uniq, rng, exh_bits, samples, &dict)
}

#[derive(Debug)]
pub struct Mismatch {
    pub kind: String,
    pub msg: String,
}

fn mm(kind: &str, msg: String) -> Mismatch {
    Mismatch { kind: kind.to_string(), msg }
}

/// Positional comparison of system `b` against `a` (same Context). Symbols are paired by position
/// (inputs with inputs, states with states); every init/next/output/bad/constraint of `b` must be
/// the same reference as in `a` or evaluate identically under the paired environments.
pub fn compare_positional(
    ctx: &Context,
    a: &TransitionSystem,
    b: &TransitionSystem,
    envs: &[Env],
) -> Result<(), Mismatch> {
    if a.inputs.len() != b.inputs.len() {
        return Err(mm("input-count", format!("{} inputs became {}", a.inputs.len(), b.inputs.len())));
    }
    if a.states.len() != b.states.len() {
        return Err(mm("state-count", format!("{} states became {}", a.states.len(), b.states.len())));
    }
    if a.outputs.len() != b.outputs.len() || a.bad_states.len() != b.bad_states.len() || a.constraints.len() != b.constraints.len() {
        return Err(mm(
            "root-count",
            format!(
                "outputs/bads/constraints {}/{}/{} became {}/{}/{}",
                a.outputs.len(),
                a.bad_states.len(),
                a.constraints.len(),
                b.outputs.len(),
                b.bad_states.len(),
                b.constraints.len()
            ),
        ));
    }
    for (k, (x, y)) in a.inputs.iter().zip(b.inputs.iter()).enumerate() {
        if x.get_type(ctx) != y.get_type(ctx) {
            return Err(mm("input-type", format!("input {}: {:?} became {:?}", k, x.get_type(ctx), y.get_type(ctx))));
        }
        if !ctx[*y].is_symbol() {
            return Err(mm("input-not-symbol", format!("input {} became {}", k, refeval::show(ctx, *y))));
        }
    }
    for (k, (x, y)) in a.states.iter().zip(b.states.iter()).enumerate() {
        if x.symbol.get_type(ctx) != y.symbol.get_type(ctx) {
            return Err(mm("state-type", format!("state {}: {:?} became {:?}", k, x.symbol.get_type(ctx), y.symbol.get_type(ctx))));
        }
        if !ctx[y.symbol].is_symbol() {
            return Err(mm("state-not-symbol", format!("state {} became {}", k, refeval::show(ctx, y.symbol))));
        }
        if x.init.is_some() != y.init.is_some() {
            return Err(mm("init-presence", format!("state {}: init {:?} became {:?}", k, x.init.is_some(), y.init.is_some())));
        }
        if x.next.is_some() != y.next.is_some() {
            return Err(mm("next-presence", format!("state {}: next {:?} became {:?}", k, x.next.is_some(), y.next.is_some())));
        }
    }
    let sa = positional_symbols(a);
    let sb = positional_symbols(b);
    let mut pairs: Vec<(String, ExprRef, ExprRef)> = vec![];
    for (k, (x, y)) in a.outputs.iter().zip(b.outputs.iter()).enumerate() {
        pairs.push((format!("output {}", k), x.expr, y.expr));
    }
    for (k, (x, y)) in a.bad_states.iter().zip(b.bad_states.iter()).enumerate() {
        pairs.push((format!("bad {}", k), *x, *y));
    }
    for (k, (x, y)) in a.constraints.iter().zip(b.constraints.iter()).enumerate() {
        pairs.push((format!("constraint {}", k), *x, *y));
    }
    for (k, (x, y)) in a.states.iter().zip(b.states.iter()).enumerate() {
        if let (Some(i), Some(j)) = (x.init, y.init) {
            pairs.push((format!("init of state {}", k), i, j));
        }
        if let (Some(i), Some(j)) = (x.next, y.next) {
            pairs.push((format!("next of state {}", k), i, j));
        }
    }
    for (what, x, y) in pairs.iter() {
        if x.get_type(ctx) != y.get_type(ctx) {
            return Err(mm("root-type", format!("{}: type {:?} became {:?}", what, x.get_type(ctx), y.get_type(ctx))));
        }
    }
    let same_symbols = sa == sb;
    if same_symbols && pairs.iter().all(|(_, x, y)| x == y) {
        return Ok(());
    }
    refeval::deep_type_check(ctx, &pairs.iter().map(|p| p.2).collect::<Vec<_>>()).map_err(|m| mm("ill-typed", m))?;
    for env_a in envs {
        // paired environment for b
        let mut env_b = Env::default();
        for (x, y) in sa.iter().zip(sb.iter()) {
            if let Some(v) = env_a.get(x) {
                env_b.insert(*y, v.clone());
            }
        }
        let mut ca = Default::default();
        let mut cb = Default::default();
        for (what, x, y) in pairs.iter() {
            if same_symbols && x == y {
                continue;
            }
            let va = refeval::eval_cached(ctx, env_a, *x, &mut ca).map_err(|m| mm("harness-refeval", m))?;
            let vb = refeval::eval_cached(ctx, &env_b, *y, &mut cb)
                .map_err(|m| mm("foreign-symbol", format!("{}: {} mentions a symbol that is not a positional input/state: {}", what, refeval::show(ctx, *y), m)))?;
            if !va.sem_eq(&vb) {
                return Err(mm(
                    "wrong-value",
                    format!(
                        "{}: original {} = {} but new {} = {} under {}",
                        what,
                        refeval::show(ctx, *x),
                        va.short(),
                        refeval::show(ctx, *y),
                        vb.short(),
                        crate::props::c01::show_env(ctx, env_a)
                    ),
                ));
            }
        }
    }
    Ok(())
}
