//! Typed expression-DAG generator (bottom-up pool construction) driven by a choice tape.
//! Rule-shaped structure (the left-hand sides of the simplifier's rewrites, the coercion cases of the
//! SMT-LIB writer) is produced by biasing operand choice: same operand, negated operand, literal of
//! an interesting shape, freshly built operand of a particular operator.

use crate::refval::Bv;
use crate::tape::Tape;
use patronus::expr::{Context, ExprRef, Type, TypeCheck};

#[derive(Clone, Copy, PartialEq, Eq, Debug)]
pub enum WidthProfile {
    /// 1..=4 bits (exhaustive assignment enumeration possible)
    Tiny,
    /// 1..=8
    Small,
    /// the boundary classes 1, 2..8, 31..33, 63..65, 127..129, 130..200, plus any width 9..126 and a few
    /// widths of 3 to 9 words
    Wide,
}

#[derive(Clone, Debug)]
pub struct GenCfg {
    pub widths: WidthProfile,
    pub arrays: bool,
    pub divrem: bool,
    pub max_steps: u32,
    pub exotic_names: bool,
    pub max_index_width: u32,
}

impl Default for GenCfg {
    fn default() -> Self {
        GenCfg {
            widths: WidthProfile::Wide,
            arrays: true,
            divrem: true,
            max_steps: 24,
            exotic_names: false,
            max_index_width: 4,
        }
    }
}

pub struct ExprGen {
    pub cfg: GenCfg,
    pub bvs: Vec<(ExprRef, u32)>,
    pub arrs: Vec<(ExprRef, u32, u32)>,
    pub symbols: Vec<ExprRef>,
    pub case_widths: Vec<u32>,
    pub steps_done: u32,
}

pub fn pick_width(t: &mut Tape, p: WidthProfile) -> u32 {
    match p {
        WidthProfile::Tiny => t.range(1, 4),
        WidthProfile::Small => t.range(1, 8),
        WidthProfile::Wide => match t.weighted(&[3, 5, 3, 3, 2, 1, 2, 1]) {
            0 => 1,
            1 => t.range(2, 8),
            2 => t.range(31, 33),
            3 => t.range(63, 65),
            4 => t.range(127, 129),
            5 => t.range(130, 200),
            // no width is special to the generator: everything between the boundary classes, and
            // a few words beyond them (multiples of 64 included)
            6 => t.range(9, 126),
            _ => *t.pick(&[192u32, 255, 256, 257, 320, 384, 500, 512, 513]),
        },
    }
}

const SIMPLE_NAMES: [&str; 12] = ["a", "b", "c", "d", "e", "f", "g", "h", "i", "j", "k", "l"];
const EXOTIC_NAMES: [&str; 21] = [
    // names that look like literals or keywords once the quotes are stripped
    "#b0101",
    "#xff",
    "#b1",
    "1.5",
    "42",
    "x y",
    "1abc",
    "a:b",
    "$sig",
    "mem[3]",
    "top.sub.sig",
    "ünï",
    "a#b",
    "x'",
    "(paren)",
    "semi;colon",
    "q\"uote",
    "hello world 2",
    "_under",
    "A-B",
    "a,b",
];

/// characters for generated names: printable ASCII, Latin-1 (incl. the no-break space), Unicode spaces
/// that are not the blank or the tab, a byte-order mark, CJK, a combining mark and an astral character
const NAME_CHARS: [char; 58] = [
    'a', 'b', 'x', 'Z', '0', '7', '_', '.', '$', ':', '[', ']', '(', ')', '{', '}', '<', '>', '=', '+', '-', '*', '/', '%',
    '&', '^', '~', '!', '?', ',', '\'', '"', '`', '@', '#', ';', ' ', '\t', '|', '\\', 'é', 'ß', 'µ', '\u{a0}', '\u{2003}',
    '\u{3000}', '\u{feff}', '\u{c}', '\u{b}', '名', '前', '\u{301}', '😀', 'Ω', '¬', '÷', '\u{85}', '\u{2028}',
];

/// A name of 1-8 characters drawn from `NAME_CHARS` without the characters in `forbidden`, followed by
/// `suffix` (which makes it unique). Names are generated, not picked from a list.
pub fn random_name(t: &mut Tape, forbidden: &[char], suffix: &str) -> String {
    let n = 1 + t.below(8);
    let mut s = String::new();
    for _ in 0..n {
        let c = NAME_CHARS[t.below(NAME_CHARS.len() as u32) as usize];
        if !forbidden.contains(&c) {
            s.push(c);
        }
    }
    if s.is_empty() {
        s.push('n');
    }
    s.push_str(suffix);
    s
}

impl ExprGen {
    pub fn new(cfg: GenCfg) -> Self {
        ExprGen { cfg, bvs: vec![], arrs: vec![], symbols: vec![], case_widths: vec![], steps_done: 0 }
    }

    pub fn name(&self, t: &mut Tape, idx: usize) -> String {
        if self.cfg.exotic_names && t.chance(128) {
            if t.chance(96) {
                // SMT-LIB cannot express `|` and `\` inside a symbol
                return random_name(t, &['|', '\\'], &idx.to_string());
            }
            let base = EXOTIC_NAMES[t.below(EXOTIC_NAMES.len() as u32) as usize];
            format!("{}{}", base, idx)
        } else {
            let base = SIMPLE_NAMES[idx % SIMPLE_NAMES.len()];
            if idx >= SIMPLE_NAMES.len() { format!("{}{}", base, idx) } else { base.to_string() }
        }
    }

    pub fn add_bv(&mut self, ctx: &Context, e: ExprRef) -> ExprRef {
        let w = e.get_bv_type(ctx).expect("bv");
        if !self.bvs.iter().any(|(x, _)| *x == e) {
            self.bvs.push((e, w));
        }
        e
    }
    pub fn add_arr(&mut self, ctx: &Context, e: ExprRef) -> ExprRef {
        let at = e.get_array_type(ctx).expect("array");
        if !self.arrs.iter().any(|(x, _, _)| *x == e) {
            self.arrs.push((e, at.index_width, at.data_width));
        }
        e
    }
    pub fn add_symbol(&mut self, ctx: &Context, e: ExprRef) {
        self.symbols.push(e);
        match e.get_type(ctx) {
            Type::BV(_) => {
                self.add_bv(ctx, e);
            }
            Type::Array(_) => {
                self.add_arr(ctx, e);
            }
        }
    }

    /// Creates symbols (2-3 per chosen width so that `a op a`, `a op !a` arise) and a few literals.
    pub fn seed(&mut self, ctx: &mut Context, t: &mut Tape) {
        let nw = 1 + t.below(3);
        self.case_widths.push(pick_width(t, self.cfg.widths));
        for _ in 1..nw {
            let w = pick_width(t, self.cfg.widths);
            if !self.case_widths.contains(&w) {
                self.case_widths.push(w);
            }
        }
        let mut idx = 0usize;
        let widths = self.case_widths.clone();
        for w in widths.iter() {
            let n = 1 + t.below(3);
            for _ in 0..n {
                let name = self.name(t, idx);
                idx += 1;
                let s = ctx.bv_symbol(&name, *w);
                self.add_symbol(ctx, s);
            }
        }
        // always have a 1-bit symbol available
        if !self.case_widths.contains(&1) {
            let name = self.name(t, idx);
            idx += 1;
            let s = ctx.bv_symbol(&name, 1);
            self.add_symbol(ctx, s);
        }
        if self.cfg.arrays && t.chance(110) {
            let n = 1 + t.below(2);
            for _ in 0..n {
                let iw = if t.chance(24) {
                    t.range(1, self.cfg.max_index_width.max(1))
                } else {
                    t.range(1, self.cfg.max_index_width.clamp(1, 4))
                };
                let dw = if t.flag() { *t.pick(&widths) } else { t.range(1, 4) };
                let m = 1 + t.below(2);
                for _ in 0..m {
                    let name = self.name(t, idx);
                    idx += 1;
                    let s = ctx.array_symbol(&name, iw, dw);
                    self.add_symbol(ctx, s);
                }
            }
        }
    }

    pub fn lit(&mut self, ctx: &mut Context, t: &mut Tape, w: u32) -> ExprRef {
        let v = t.bits(w);
        let e = ctx.bv_lit(&Bv::new(w, v).to_baa());
        e
    }

    fn pool_pick(&self, t: &mut Tape, len: usize) -> usize {
        debug_assert!(len > 0);
        if t.flag() {
            // recent nodes (depth grows)
            let k = len.min(4) as u32;
            len - 1 - t.below(k) as usize
        } else {
            t.below(len as u32) as usize
        }
    }

    pub fn any_bv(&mut self, ctx: &mut Context, t: &mut Tape) -> (ExprRef, u32) {
        if self.bvs.is_empty() {
            let w = pick_width(t, self.cfg.widths);
            let l = self.lit(ctx, t, w);
            return (l, w);
        }
        let i = self.pool_pick(t, self.bvs.len());
        self.bvs[i]
    }

    /// like any_bv but never wider than `maxw` (keeps concat/extension chains from exploding)
    pub fn any_bv_max(&mut self, ctx: &mut Context, t: &mut Tape, maxw: u32) -> (ExprRef, u32) {
        let (e, w) = self.any_bv(ctx, t);
        if w <= maxw {
            (e, w)
        } else {
            let nw = t.range(1, maxw.min(8));
            (self.bv(ctx, t, nw), nw)
        }
    }

    /// An expression of exactly width `w`, adapting a pool node if necessary.
    pub fn bv(&mut self, ctx: &mut Context, t: &mut Tape, w: u32) -> ExprRef {
        // prefer an exact match sometimes
        if t.chance(96) {
            let exact: Vec<ExprRef> =
                self.bvs.iter().filter(|(_, ew)| *ew == w).map(|(e, _)| *e).collect();
            if !exact.is_empty() {
                let i = self.pool_pick(t, exact.len());
                return exact[i];
            }
        }
        if t.chance(40) {
            return self.lit(ctx, t, w);
        }
        let (e, ew) = self.any_bv(ctx, t);
        self.fit(ctx, t, e, ew, w)
    }

    pub fn fit(&mut self, ctx: &mut Context, t: &mut Tape, e: ExprRef, ew: u32, w: u32) -> ExprRef {
        if ew == w {
            e
        } else if ew > w {
            let lo = match t.below(3) {
                0 => 0,
                1 => ew - w,
                _ => t.below(ew - w + 1),
            };
            ctx.slice(e, lo + w - 1, lo)
        } else {
            let by = w - ew;
            match t.below(4) {
                0 => ctx.zero_extend(e, by),
                1 => ctx.sign_extend(e, by),
                2 => {
                    let l = self.lit(ctx, t, by);
                    ctx.concat(l, e)
                }
                _ => {
                    let l = self.lit(ctx, t, by);
                    ctx.concat(e, l)
                }
            }
        }
    }

    pub fn arr(&mut self, ctx: &mut Context, t: &mut Tape, iw: u32, dw: u32) -> ExprRef {
        let exact: Vec<ExprRef> = self
            .arrs
            .iter()
            .filter(|(_, i, d)| *i == iw && *d == dw)
            .map(|(e, _, _)| *e)
            .collect();
        if !exact.is_empty() && !t.chance(40) {
            let i = self.pool_pick(t, exact.len());
            return exact[i];
        }
        let d = self.bv(ctx, t, dw);
        let a = ctx.array_const(d, iw);
        self.add_arr(ctx, a)
    }

    fn second_operand(&mut self, ctx: &mut Context, t: &mut Tape, a: ExprRef, w: u32) -> ExprRef {
        match t.weighted(&[6, 2, 2, 6]) {
            0 => self.bv(ctx, t, w),
            1 => a,
            2 => ctx.not(a),
            _ => self.lit(ctx, t, w),
        }
    }

    /// operand of a particular operator kind (for push-down rules like slice-of-X)
    fn fresh_op(&mut self, ctx: &mut Context, t: &mut Tape, w: u32) -> ExprRef {
        let a = self.bv(ctx, t, w);
        match t.below(14) {
            0 => {
                let b = self.bv(ctx, t, w);
                ctx.and(a, b)
            }
            1 => {
                let b = self.bv(ctx, t, w);
                ctx.or(a, b)
            }
            2 => {
                let b = self.bv(ctx, t, w);
                ctx.xor(a, b)
            }
            3 => {
                let b = self.bv(ctx, t, w);
                ctx.add(a, b)
            }
            4 => {
                let b = self.bv(ctx, t, w);
                ctx.sub(a, b)
            }
            5 => {
                let b = self.bv(ctx, t, w);
                ctx.mul(a, b)
            }
            6 => ctx.not(a),
            7 => ctx.negate(a),
            8 => {
                let c = self.bv(ctx, t, 1);
                let b = self.bv(ctx, t, w);
                ctx.ite(c, a, b)
            }
            9 if w >= 2 => {
                let k = t.range(1, w - 1);
                let x = self.bv(ctx, t, k);
                ctx.sign_extend(x, w - k)
            }
            10 if w >= 2 => {
                let k = t.range(1, w - 1);
                let x = self.bv(ctx, t, k);
                let y = self.bv(ctx, t, w - k);
                ctx.concat(x, y)
            }
            11 => {
                let extra = t.range(1, 4);
                let x = self.bv(ctx, t, w + extra);
                let lo = t.below(extra + 1);
                ctx.slice(x, lo + w - 1, lo)
            }
            12 if w >= 2 => {
                let k = t.range(1, w - 1);
                let x = self.bv(ctx, t, k);
                ctx.zero_extend(x, w - k)
            }
            _ => self.lit(ctx, t, w),
        }
    }

    /// One growth step: adds (at least) one node to a pool and returns it.
    pub fn step(&mut self, ctx: &mut Context, t: &mut Tape) -> ExprRef {
        self.steps_done += 1;
        let arrays = self.cfg.arrays && !self.arrs.is_empty();
        let kind = t.weighted(&[
            10,                                // 0 binary same-width
            5,                                 // 1 comparison
            4,                                 // 2 unary not/neg
            5,                                 // 3 slice
            4,                                 // 4 ext
            5,                                 // 5 concat
            5,                                 // 6 ite
            4,                                 // 7 shifts by (mostly) literals
            2,                                 // 8 implies
            if self.cfg.divrem { 2 } else { 0 }, // 9 div/rem
            if arrays { 3 } else { 0 },        // 10 array read
            if arrays { 3 } else { 0 },        // 11 array store
            if arrays { 1 } else { 0 },        // 12 array ite
            if arrays { 1 } else { 0 },        // 13 array eq
            if self.cfg.arrays { 1 } else { 0 }, // 14 array const
        ]);
        let e = match kind {
            0 => {
                let (a, w) = self.any_bv(ctx, t);
                let b = self.second_operand(ctx, t, a, w);
                let (a, b) = if t.flag() { (b, a) } else { (a, b) };
                match t.below(6) {
                    0 => ctx.and(a, b),
                    1 => ctx.or(a, b),
                    2 => ctx.xor(a, b),
                    3 => ctx.add(a, b),
                    4 => ctx.sub(a, b),
                    _ => ctx.mul(a, b),
                }
            }
            1 => {
                let (a, w) = self.any_bv(ctx, t);
                let b = if t.chance(64) {
                    // eq against a concat
                    if w >= 2 {
                        let k = t.range(1, w - 1);
                        let x = self.bv(ctx, t, k);
                        let y = self.bv(ctx, t, w - k);
                        ctx.concat(x, y)
                    } else {
                        self.second_operand(ctx, t, a, w)
                    }
                } else {
                    self.second_operand(ctx, t, a, w)
                };
                let (a, b) = if t.flag() { (b, a) } else { (a, b) };
                match t.below(6) {
                    0 | 1 => ctx.equal(a, b),
                    2 => ctx.greater(a, b),
                    3 => ctx.greater_or_equal(a, b),
                    4 => ctx.greater_signed(a, b),
                    _ => ctx.greater_or_equal_signed(a, b),
                }
            }
            2 => {
                let (a, w) = self.any_bv(ctx, t);
                let a = if t.chance(64) { self.fresh_op(ctx, t, w) } else { a };
                if t.below(3) < 2 { ctx.not(a) } else { ctx.negate(a) }
            }
            3 => {
                let (a, w) = self.any_bv(ctx, t);
                let a = if t.chance(128) { self.fresh_op(ctx, t, w) } else { a };
                let (hi, lo) = match t.below(4) {
                    0 => (t.below(w), 0),
                    1 => {
                        let lo = t.below(w);
                        (w - 1, lo)
                    }
                    _ => {
                        let lo = t.below(w);
                        (lo + t.below(w - lo), lo)
                    }
                };
                ctx.slice(a, hi, lo)
            }
            4 => {
                let (a, w) = self.any_bv_max(ctx, t, 130);
                let a = match t.below(4) {
                    0 => self.lit(ctx, t, w),
                    1 => {
                        let by = t.range(1, 3);
                        ctx.sign_extend(a, by)
                    }
                    _ => a,
                };
                let by = if t.chance(40) { t.range(0, 70) } else { t.range(0, 4) };
                if t.flag() { ctx.zero_extend(a, by) } else { ctx.sign_extend(a, by) }
            }
            5 => match t.below(5) {
                0 => {
                    // adjacent slices of the same thing
                    let (a, w) = self.any_bv_max(ctx, t, 130);
                    if w >= 2 {
                        let mid = t.range(1, w - 1);
                        let hi = t.range(mid, w - 1);
                        let lo = t.below(mid);
                        // mostly adjacent; sometimes overlapping by one bit (rule must not fire)
                        let (mid2, lo2) = if t.chance(40) { (mid, lo) } else { (mid - 1, lo) };
                        let x = ctx.slice(a, hi, mid);
                        let y = ctx.slice(a, mid2, lo2);
                        ctx.concat(x, y)
                    } else {
                        let (b, _) = self.any_bv_max(ctx, t, 130);
                        ctx.concat(a, b)
                    }
                }
                1 => {
                    // lit # (lit # x)
                    let (x, _) = self.any_bv_max(ctx, t, 130);
                    let w1 = t.range(1, 5);
                    let l1 = self.lit(ctx, t, w1);
                    let w2 = t.range(1, 5);
                    let l2 = self.lit(ctx, t, w2);
                    let inner = ctx.concat(l2, x);
                    ctx.concat(l1, inner)
                }
                2 => {
                    // (a # b) # c
                    let (a, _) = self.any_bv_max(ctx, t, 130);
                    let (b, _) = self.any_bv_max(ctx, t, 130);
                    let (c, _) = self.any_bv_max(ctx, t, 130);
                    let ab = ctx.concat(a, b);
                    ctx.concat(ab, c)
                }
                _ => {
                    let (a, _) = self.any_bv_max(ctx, t, 130);
                    let (b, wb) = self.any_bv_max(ctx, t, 130);
                    let b = if t.chance(48) { self.lit(ctx, t, wb) } else { b };
                    ctx.concat(a, b)
                }
            },
            6 => {
                let c = if t.chance(32) { self.lit(ctx, t, 1) } else { self.bv(ctx, t, 1) };
                let (a, w) = self.any_bv(ctx, t);
                let b = match t.below(4) {
                    0 => a,
                    1 => self.lit(ctx, t, w),
                    _ => self.bv(ctx, t, w),
                };
                let a = if t.chance(48) { self.lit(ctx, t, w) } else { a };
                let (a, b) = if t.flag() { (b, a) } else { (a, b) };
                ctx.ite(c, a, b)
            }
            7 => {
                let (a, w) = self.any_bv(ctx, t);
                let a = if t.chance(32) { self.lit(ctx, t, w) } else { a };
                let b = if t.chance(200) {
                    // literal shift amount around interesting boundaries
                    let opts: [u64; 10] = [
                        0,
                        1,
                        w as u64 - 1,
                        w as u64,
                        w as u64 + 1,
                        1 << 32,
                        (1 << 32) + 1,
                        1 << 63,
                        u64::MAX,
                        (w / 2) as u64,
                    ];
                    let v = if t.chance(24) {
                        t.bits(w)
                    } else {
                        num_bigint::BigUint::from(opts[t.below(10) as usize])
                    };
                    ctx.bv_lit(&Bv::new(w, v).to_baa())
                } else {
                    self.bv(ctx, t, w)
                };
                match t.below(3) {
                    0 => ctx.shift_left(a, b),
                    1 => ctx.shift_right(a, b),
                    _ => ctx.arithmetic_shift_right(a, b),
                }
            }
            8 => {
                let a = self.bv(ctx, t, 1);
                let b = self.second_operand(ctx, t, a, 1);
                ctx.implies(a, b)
            }
            9 => {
                let (a, w) = self.any_bv(ctx, t);
                let b = self.second_operand(ctx, t, a, w);
                match t.below(5) {
                    0 => ctx.div(a, b),
                    1 => ctx.signed_div(a, b),
                    2 => ctx.signed_mod(a, b),
                    3 => ctx.signed_remainder(a, b),
                    _ => ctx.remainder(a, b),
                }
            }
            10 => {
                let i = self.pool_pick(t, self.arrs.len());
                let (a, iw, _) = self.arrs[i];
                let idx = self.bv(ctx, t, iw);
                ctx.array_read(a, idx)
            }
            11 => {
                let i = self.pool_pick(t, self.arrs.len());
                let (a, iw, dw) = self.arrs[i];
                let idx = if t.flag() { self.lit(ctx, t, iw) } else { self.bv(ctx, t, iw) };
                let d = self.bv(ctx, t, dw);
                ctx.array_store(a, idx, d)
            }
            12 => {
                let i = self.pool_pick(t, self.arrs.len());
                let (a, iw, dw) = self.arrs[i];
                let b = self.arr(ctx, t, iw, dw);
                let c = self.bv(ctx, t, 1);
                ctx.ite(c, a, b)
            }
            13 => {
                let i = self.pool_pick(t, self.arrs.len());
                let (a, iw, dw) = self.arrs[i];
                let b = self.arr(ctx, t, iw, dw);
                ctx.equal(a, b)
            }
            _ => {
                let iw = t.range(1, self.cfg.max_index_width.clamp(1, 4));
                let (d, _) = self.any_bv(ctx, t);
                ctx.array_const(d, iw)
            }
        };
        match e.get_type(ctx) {
            Type::BV(_) => self.add_bv(ctx, e),
            Type::Array(_) => self.add_arr(ctx, e),
        }
    }

    pub fn grow(&mut self, ctx: &mut Context, t: &mut Tape, steps: u32) -> ExprRef {
        let mut last = None;
        for _ in 0..steps {
            last = Some(self.step(ctx, t));
        }
        match last {
            Some(e) => e,
            None => self.any_bv(ctx, t).0,
        }
    }

    /// An expression of the requested type built from `steps` growth steps.
    pub fn of_type(&mut self, ctx: &mut Context, t: &mut Tape, tpe: Type, steps: u32) -> ExprRef {
        let last = self.grow(ctx, t, steps);
        match tpe {
            Type::BV(w) => match last.get_type(ctx) {
                Type::BV(lw) if steps > 0 => self.fit(ctx, t, last, lw, w),
                _ => self.bv(ctx, t, w),
            },
            Type::Array(at) => {
                if steps > 0 && last.get_type(ctx) == tpe {
                    last
                } else {
                    let a = self.arr(ctx, t, at.index_width, at.data_width);
                    if t.chance(128) {
                        let idx = self.bv(ctx, t, at.index_width);
                        let d = self.bv(ctx, t, at.data_width);
                        let s = ctx.array_store(a, idx, d);
                        self.add_arr(ctx, s)
                    } else {
                        a
                    }
                }
            }
        }
    }
}

/// Standard single-root case used by C01/C05/C06/C13/C14.
pub struct ExprCase {
    pub ctx: Context,
    pub roots: Vec<ExprRef>,
    pub symbols: Vec<ExprRef>,
}

pub fn gen_case(t: &mut Tape, cfg: &GenCfg, max_roots: u32) -> ExprCase {
    let mut ctx = Context::default();
    let mut g = ExprGen::new(cfg.clone());
    g.seed(&mut ctx, t);
    let nroots = 1 + t.below(max_roots.max(1));
    let mut roots = vec![];
    for _ in 0..nroots {
        let steps = 1 + t.below(cfg.max_steps.max(1));
        let r = g.grow(&mut ctx, t, steps);
        roots.push(r);
    }
    ExprCase { ctx, roots, symbols: g.symbols.clone() }
}
