//! Running patronus' model checkers through the real SmtLibSolverCtx against the reference solver
//! shim, and judging witnesses against the reference simulator.

use crate::engine::{PanicInfo, guard};
use crate::refeval;
use crate::refsim::RefSim;
use crate::refval::{Arr, Bv, Val};
use crate::shim::{self, ShimCfg};
use baa::{ArrayOps, BitVecOps, Value};
use patronus::expr::{Context, Type, TypeCheck};
use patronus::mc::{InitValue, ModelCheckResult, Witness, bmc, pdr};
use patronus::smt::Solver;
use patronus::system::TransitionSystem;

pub enum McOutcome {
    Success,
    Unknown,
    Fail(Witness),
    Err(String),
    Panic(PanicInfo),
    StartFailed(String),
}

impl McOutcome {
    pub fn name(&self) -> &'static str {
        match self {
            McOutcome::Success => "success",
            McOutcome::Unknown => "unknown",
            McOutcome::Fail(_) => "fail",
            McOutcome::Err(_) => "error",
            McOutcome::Panic(_) => "panic",
            McOutcome::StartFailed(_) => "start-failed",
        }
    }
}

#[derive(Clone, Copy, Debug, PartialEq, Eq)]
pub enum Engine {
    Bmc { individually: bool, k: u64, check_constraints: bool },
    Pdr { disable_cores: bool },
}

pub fn run_mc(ctx: &mut Context, sys: &TransitionSystem, profile_idx: usize, engine: Engine, cfg: &ShimCfg) -> McOutcome {
    shim::apply(cfg);
    let (_name, solver) = shim::profile(profile_idx);
    let r = guard(|| {
        let mut smt = match solver.start(None) {
            Ok(s) => s,
            Err(e) => return Err(format!("START:{}", e)),
        };
        let res = match engine {
            Engine::Bmc { individually, k, check_constraints } => bmc(ctx, &mut smt, sys, check_constraints, individually, k),
            Engine::Pdr { disable_cores } => pdr(ctx, &mut smt, sys, disable_cores),
        };
        res.map_err(|e| format!("{}", e))
    });
    match r {
        Err(p) => McOutcome::Panic(p),
        Ok(Err(e)) => {
            if let Some(m) = e.strip_prefix("START:") {
                McOutcome::StartFailed(m.to_string())
            } else {
                McOutcome::Err(e)
            }
        }
        Ok(Ok(ModelCheckResult::Success)) => McOutcome::Success,
        Ok(Ok(ModelCheckResult::Unknown)) => McOutcome::Unknown,
        Ok(Ok(ModelCheckResult::Fail(w))) => McOutcome::Fail(w),
    }
}

/// coarse class of an error text for signatures
pub fn error_class(msg: &str) -> String {
    let m = msg.to_lowercase();
    // a crash of the reference solver itself is harness trouble, never a verdict on patronus
    if m.contains("panicked at src/") || m.contains("refsolver internal") || m.contains("reference-limit") {
        return "BACKEND".to_string();
    }
    let table: [(&str, &str); 13] = [
        // PDR's own consistency error (not a reply of the solver): a proof-obligation cube contains an
        // initial state and generalisation cannot repair it
        ("original cube intersects with init", "fix_gen_cube-cube-intersects-init"),
        ("as const", "const-array-unsupported"),
        ("check-sat-assuming is not supported", "check-sat-assuming-unsupported"),
        ("get-unsat-assumptions is not supported", "unsat-assumptions-unsupported"),
        ("already declared or defined", "symbol-defined-twice"),
        ("unknown constant", "unknown-constant"),
        ("reserved", "reserved-name"),
        ("backend disagrees", "BACKEND"),
        ("unexpected response", "unexpected-response"),
        ("unreachable, the process might have died", "solver-dead"),
        ("failed to parse a response", "response-parse-error"),
        ("sort", "ill-sorted"),
        ("i/o operation failed", "io-error"),
    ];
    for (k, v) in table {
        if m.contains(k) {
            return v.to_string();
        }
    }
    let mut out = String::new();
    for ch in msg.chars().take(40) {
        if ch.is_ascii_alphanumeric() || ch == ' ' || ch == '-' {
            out.push(ch);
        }
    }
    out.trim().replace(' ', "-")
}

fn val_of_value(v: &Value) -> Val {
    match v {
        Value::BitVec(b) => Val::Bv(Bv::from_baa(b)),
        Value::Array(a) => {
            let iw = a.index_width();
            let dw = a.data_width();
            let mut arr = Arr::constant(iw, &Bv::zero(dw));
            for i in 0..(1u64 << iw.min(12)) {
                let idx = Bv::from_u64(iw, i);
                arr = arr.store(&idx, &Bv::from_baa(&a.select(&idx.to_baa())));
            }
            Val::Arr(arr)
        }
    }
}

fn type_matches(v: &Val, t: Type) -> bool {
    match (v, t) {
        (Val::Bv(b), Type::BV(w)) => b.w == w,
        (Val::Arr(a), Type::Array(at)) => a.iw == at.index_width && a.dw == at.data_width,
        _ => false,
    }
}

/// Validates a witness against the reference simulator. Returns (kind, message) on failure.
/// The check is existential over the values of next-less states at steps >= 1 (the witness format
/// has no place for them): all candidate states are tracked.
pub fn validate_witness(ctx: &Context, sys: &TransitionSystem, wit: &Witness) -> Result<(), (String, String)> {
    let sim = RefSim::new(ctx, sys);
    let e = |k: &str, m: String| -> (String, String) { (k.to_string(), m) };
    if wit.failed_safety.is_empty() {
        return Err(e("no-failed-property", "witness lists no failed bad state".into()));
    }
    // ---- shape: states
    if wit.init.len() != sys.states.len() || wit.init_names.len() != sys.states.len() {
        return Err(e("state-count", format!("{} init values / {} names for {} states", wit.init.len(), wit.init_names.len(), sys.states.len())));
    }
    let mut s0: Vec<Val> = vec![];
    for (k, st) in sys.states.iter().enumerate() {
        let name = ctx.get_symbol_name(st.symbol).unwrap();
        if wit.init_names[k].as_deref() != Some(name) {
            return Err(e("state-name", format!("state {}: witness name {:?}, system name {}", k, wit.init_names[k], name)));
        }
        let v = match &wit.init[k] {
            InitValue::BitVec(b) => Val::Bv(Bv::from_baa(b)),
            InitValue::Array(a, _) => val_of_value(&Value::Array(a.clone())),
            InitValue::None => return Err(e("state-value-missing", format!("state {} ({}) has no value", k, name))),
        };
        if !type_matches(&v, st.symbol.get_type(ctx)) {
            return Err(e("state-value-type", format!("state {} ({}): value {} does not fit {:?}", k, name, v.short(), st.symbol.get_type(ctx))));
        }
        s0.push(v);
    }
    // ---- shape: inputs
    let steps = wit.inputs.len();
    if steps == 0 {
        return Err(e("no-steps", "witness has no input frame".into()));
    }
    if wit.input_names.len() != sys.inputs.len() {
        return Err(e("input-count", format!("{} input names for {} inputs", wit.input_names.len(), sys.inputs.len())));
    }
    for (k, i) in sys.inputs.iter().enumerate() {
        let name = ctx.get_symbol_name(*i).unwrap();
        if wit.input_names[k].as_deref() != Some(name) {
            return Err(e("input-name", format!("input {}: witness name {:?}, system name {}", k, wit.input_names[k], name)));
        }
    }
    let mut inputs: Vec<Vec<Val>> = vec![];
    for (s, frame) in wit.inputs.iter().enumerate() {
        if frame.len() != sys.inputs.len() {
            return Err(e("input-count", format!("step {}: {} values for {} inputs", s, frame.len(), sys.inputs.len())));
        }
        let mut vals = vec![];
        for (k, v) in frame.iter().enumerate() {
            let Some(v) = v else {
                return Err(e("input-value-missing", format!("step {} input {} has no value", s, k)));
            };
            let v = val_of_value(v);
            if !type_matches(&v, sys.inputs[k].get_type(ctx)) {
                return Err(e("input-value-type", format!("step {} input {}: {} does not fit {:?}", s, k, v.short(), sys.inputs[k].get_type(ctx))));
            }
            vals.push(v);
        }
        inputs.push(vals);
    }
    // ---- initial values agree with the init expressions
    let expect0 = sim.initial(&s0, &inputs[0]).map_err(|m| e("harness", m))?;
    for (k, (a, b)) in s0.iter().zip(expect0.iter()).enumerate() {
        if !a.sem_eq(b) {
            return Err(e(
                "init-mismatch",
                format!(
                    "state {} ({}) starts at {} but its init expression gives {}",
                    k,
                    ctx.get_symbol_name(sys.states[k].symbol).unwrap(),
                    a.short(),
                    b.short()
                ),
            ));
        }
    }
    // ---- replay (set of candidate states because next-less states are free after step 0)
    let free_next: Vec<usize> = (0..sys.states.len()).filter(|k| sys.states[*k].next.is_none()).collect();
    let free_bits: u32 = free_next.iter().map(|k| crate::gen_sys::type_bits(sim.state_types[*k])).sum();
    if free_bits > 12 {
        return Err(e("harness", "too many free next-less state bits for the existential replay".into()));
    }
    let mut cands: Vec<Vec<Val>> = vec![s0];
    let mut last_obs: Vec<crate::refsim::StepResult> = vec![];
    for s in 0..steps {
        let mut ok_states = vec![];
        last_obs.clear();
        for st in cands.iter() {
            let obs = sim.observe(st, &inputs[s]).map_err(|m| e("harness", m))?;
            if obs.constraints_ok {
                ok_states.push(st.clone());
                last_obs.push(obs);
            }
        }
        if ok_states.is_empty() {
            return Err(e("constraint-violated", format!("no way to satisfy all constraints at step {}", s)));
        }
        if s + 1 == steps {
            break;
        }
        let mut next: Vec<Vec<Val>> = vec![];
        for st in ok_states.iter() {
            // enumerate free values
            let mut combos: Vec<Vec<(usize, Val)>> = vec![vec![]];
            for &k in free_next.iter() {
                let bits = crate::gen_sys::type_bits(sim.state_types[k]);
                let mut n2 = vec![];
                for c in combos.iter() {
                    for code in 0..(1u64 << bits) {
                        let mut c2 = c.clone();
                        c2.push((k, crate::refsim::decode_value(sim.state_types[k], code)));
                        n2.push(c2);
                    }
                }
                combos = n2;
            }
            for c in combos {
                let mut free = st.clone();
                for (k, v) in c {
                    free[k] = v;
                }
                let n = sim.next(st, &inputs[s], &free).map_err(|m| e("harness", m))?;
                if !next.iter().any(|x: &Vec<Val>| x.iter().zip(n.iter()).all(|(a, b)| a.sem_eq(b))) {
                    next.push(n);
                }
            }
        }
        cands = next;
    }
    // ---- at the last step: failed_safety must be exactly the bads that hold (for some candidate)
    let mut want: Vec<u32> = wit.failed_safety.clone();
    want.sort();
    want.dedup();
    if want.iter().any(|b| *b as usize >= sys.bad_states.len()) {
        return Err(e("bad-index", format!("failed_safety {:?} with {} bad states", wit.failed_safety, sys.bad_states.len())));
    }
    let mut seen = vec![];
    for obs in last_obs.iter() {
        let holds: Vec<u32> = obs.bads.iter().enumerate().filter(|(_, b)| **b).map(|(j, _)| j as u32).collect();
        if holds == want {
            return Ok(());
        }
        seen.push(holds);
    }
    let any_bad = seen.iter().any(|h| !h.is_empty());
    Err(e(
        if any_bad { "failed-set-mismatch" } else { "no-bad-at-last-step" },
        format!("witness claims bad states {:?} at step {}, the replay gives {:?}", want, steps - 1, seen),
    ))
}

pub fn show_witness(w: &Witness) -> String {
    let init: Vec<String> = w
        .init
        .iter()
        .zip(w.init_names.iter())
        .map(|(v, n)| {
            format!(
                "{}={}",
                n.clone().unwrap_or_default(),
                match v {
                    InitValue::BitVec(b) => b.to_bit_str(),
                    InitValue::Array(a, _) => val_of_value(&Value::Array(a.clone())).short(),
                    InitValue::None => "-".into(),
                }
            )
        })
        .collect();
    let inputs: Vec<String> = w
        .inputs
        .iter()
        .map(|f| {
            f.iter()
                .map(|v| match v {
                    Some(Value::BitVec(b)) => b.to_bit_str(),
                    Some(Value::Array(_)) => "<array>".into(),
                    None => "-".into(),
                })
                .collect::<Vec<_>>()
                .join(",")
        })
        .collect();
    format!("failed={:?} init[{}] inputs[{}]", w.failed_safety, init.join(" "), inputs.join(" | "))
}

#[allow(dead_code)]
fn unused(ctx: &Context) {
    let _ = refeval::show(ctx, ctx.get_true());
}
