use pv::engine::*;
use std::path::Path;

fn main() {
    install_panic_hook();
    let args: Vec<String> = std::env::args().skip(1).collect();
    let props = pv::props::all();
    if args.is_empty() {
        eprintln!("usage: pvcheck <Cxx> <quick|thorough> | --replay <file> | --list");
        std::process::exit(2);
    }
    if args[0] == "--list" {
        for p in props.iter() {
            println!("{}", p.id());
        }
        return;
    }
    if args[0] == "--worker" {
        let id = args.get(1).map(|s| s.as_str()).unwrap_or("");
        let tier = if args.get(2).map(|s| s.as_str()) == Some("thorough") { Tier::Thorough } else { Tier::Quick };
        let Some(prop) = props.iter().find(|p| p.id() == id) else { std::process::exit(2) };
        std::process::exit(pv::isolate::worker_main(prop.as_ref(), tier));
    }
    if args[0] == "--replay" {
        let code = replay_main(&props, Path::new(&args[1]));
        std::process::exit(code);
    }
    let id = args[0].as_str();
    let tier = match args.get(1).map(|s| s.as_str()).or(std::env::var("VERIF_TIER").ok().as_deref()) {
        Some("thorough") => Tier::Thorough,
        _ => Tier::Quick,
    };
    let Some(prop) = props.iter().find(|p| p.id() == id) else {
        eprintln!("unknown property {}", id);
        std::process::exit(2);
    };
    let code = check_main(prop.clone(), tier);
    std::process::exit(code);
}
