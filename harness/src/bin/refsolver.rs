//! Reference solver shim. Installed on PATH under the names bitwuzla / yices-smt2 / z3 / cvc5 so
//! that patronus talks to it through its real SmtLibSolverCtx text protocol.
//!  1. every command is parsed and strictly scope/sort checked by `smtref` (per-profile feature set);
//!     violations are answered with `(error "...")` like a real solver would;
//!  2. satisfiability is delegated to /usr/bin/z3 (logic ALL); the shim owns every response it prints;
//!  3. legal behaviour is randomised from REFSOLVER_SEED: different models of the same assertions,
//!     different value spellings, different (valid) unsat cores (REFSOLVER_CORE=z3|full|min|rand);
//!  4. faults are injected from REFSOLVER_FAULT=<n>:<kind> at the n-th response-bearing command;
//!  5. every command/response is logged to REFSOLVER_LOG (JSON lines).

use pv::refval::Bv;
use pv::smtref::{self, Atom, Profile, SExpr, SVal, Scopes, Sort};
use pv::tape::SplitMix;
use std::io::{BufRead, BufReader, Write};
use std::process::{Child, ChildStdin, ChildStdout, Command, Stdio};

struct Backend {
    child: Child,
    stdin: ChildStdin,
    stdout: BufReader<ChildStdout>,
    sync: u64,
}

impl Backend {
    fn start() -> Backend {
        let z3 = std::env::var("REFSOLVER_Z3").unwrap_or_else(|_| "/usr/bin/z3".to_string());
        let mut child = Command::new(z3)
            .args(["-in", "pp.min_alias_size=4294967295", "pp.max_depth=4294967295"])
            .stdin(Stdio::piped())
            .stdout(Stdio::piped())
            .stderr(Stdio::null())
            .spawn()
            .expect("refsolver: cannot start /usr/bin/z3");
        let stdin = child.stdin.take().unwrap();
        let stdout = BufReader::new(child.stdout.take().unwrap());
        let mut b = Backend { child, stdin, stdout, sync: 0 };
        b.send("(set-option :produce-models true)");
        b.send("(set-option :produce-unsat-assumptions true)");
        b
    }
    fn send(&mut self, text: &str) {
        let _ = writeln!(self.stdin, "{}", text);
    }
    /// sends a command and returns everything z3 printed for it (possibly nothing)
    fn roundtrip(&mut self, text: &str) -> String {
        self.sync += 1;
        let marker = format!("pvsync{}", self.sync);
        let _ = writeln!(self.stdin, "{}\n(echo \"{}\")", text, marker);
        let _ = self.stdin.flush();
        let mut out = String::new();
        loop {
            let mut line = String::new();
            match self.stdout.read_line(&mut line) {
                Ok(0) | Err(_) => {
                    // the backend is gone (killed from outside, out of memory): harness trouble, never a
                    // reply the client could mistake for a solver's answer
                    println!("(error \"refsolver internal: the backend z3 process ended\")");
                    let _ = std::io::stdout().flush();
                    std::process::exit(3);
                }
                Ok(_) => {
                    let t = line.trim();
                    if t == marker || t == format!("\"{}\"", marker) {
                        break;
                    }
                    out.push_str(&line);
                }
            }
        }
        out.trim().to_string()
    }
}

struct Shim {
    profile_name: String,
    profile: Profile,
    scopes: Scopes,
    z3: Backend,
    rng: SplitMix,
    randomize: bool,
    core_mode: String,
    fault: Option<(u64, String)>,
    responses: u64,
    log: Option<std::fs::File>,
    /// number of z3 scopes the shim pushed on top of the client's to pin a model
    model_pushes: u32,
    last_assumptions: Vec<SExpr>,
    last_unsat: bool,
    /// values of the current model (cleared by every command other than get-value)
    model_cache: Option<smtref::ValEnv>,
    const_cache: std::collections::HashMap<String, SVal>,
}

fn json_escape(s: &str) -> String {
    serde_json::to_string(s).unwrap_or_else(|_| "\"?\"".into())
}

impl Shim {
    fn log(&mut self, kind: &str, cmd: &str, resp: &str) {
        if let Some(f) = self.log.as_mut() {
            let _ = writeln!(
                f,
                "{{\"pid\":{},\"n\":{},\"kind\":\"{}\",\"cmd\":{},\"resp\":{}}}",
                std::process::id(),
                self.responses,
                kind,
                json_escape(cmd),
                json_escape(resp)
            );
            let _ = f.flush();
        }
    }

    fn reply(&mut self, text: &str) {
        let out = std::io::stdout();
        let mut o = out.lock();
        let _ = writeln!(o, "{}", text);
        let _ = o.flush();
    }

    fn close_model_scope(&mut self) {
        if self.model_pushes > 0 {
            let n = self.model_pushes;
            self.z3.send(&format!("(pop {})", n));
            self.model_pushes = 0;
        }
    }

    /// Returns true if a fault was injected instead of the real response.
    fn maybe_fault(&mut self, cmd_text: &str) -> bool {
        let Some((n, kind)) = self.fault.clone() else { return false };
        if self.responses != n {
            return false;
        }
        self.log("fault", cmd_text, &kind);
        match kind.as_str() {
            "err1" => self.reply("(error \"x\")"),
            "err" => self.reply("(error \"line 7 column 12: unknown constant foo@1 (declared here)\")"),
            // the comment character and a quoted-symbol bar inside the message string
            "errsemi" => self.reply("(error \"resource limit exceeded; giving up |x;y| (retry later)\")"),
            "errlong" => {
                let msg: String = (0..4096).map(|i| (b'a' + (i % 26) as u8) as char).collect();
                self.reply(&format!("(error \"{}\")", msg));
            }
            "unknown" => self.reply("unknown"),
            "empty" => self.reply(""),
            "unbalanced" => {
                self.reply("((a #b0");
                let _ = self.z3.child.kill();
                std::process::exit(0);
            }
            "exit" => {
                let _ = self.z3.child.kill();
                std::process::exit(0);
            }
            "crash" => {
                let _ = self.z3.child.kill();
                eprintln!("refsolver: injected crash");
                std::process::exit(3);
            }
            "garbage" => self.reply("@#$% not an s-expression ]]"),
            // garbage that closes more parentheses than it opens; the solver stays alive
            "extraclose" => self.reply(")"),
            "tailclose" => self.reply("unsat)"),
            "wrongsat" => self.reply("satisfiable"),
            _ => self.reply("(error \"unknown fault kind\")"),
        }
        true
    }

    fn random_value(&mut self, sort: &Sort) -> String {
        match sort {
            Sort::Bool => if self.rng.below(2) == 0 { "false".into() } else { "true".into() },
            Sort::BV(w) => format!("#b{}", Bv::new(*w, self.rng.bits(*w)).to_bit_str()),
            _ => unreachable!(),
        }
    }

    /// after a sat answer: move to a different model of the same assertions (+ assumptions)
    fn randomize_model(&mut self, assumptions: &[SExpr]) {
        if !self.randomize {
            return;
        }
        let consts: Vec<(String, Sort)> = self
            .scopes
            .declared_consts()
            .into_iter()
            .filter(|(_, s)| !matches!(s, Sort::Array(..)))
            .collect();
        if consts.is_empty() {
            return;
        }
        if !assumptions.is_empty() {
            self.z3.send("(push 1)");
            self.model_pushes += 1;
            for a in assumptions {
                self.z3.send(&format!("(assert {})", smtref::print_sexpr(a)));
            }
        }
        // REFSOLVER_TRIES=n: up to n attempts (witness-quality checks want models far from z3's default)
        let tries = match std::env::var("REFSOLVER_TRIES").ok().and_then(|s| s.parse::<u64>().ok()) {
            Some(n) if n > 0 => n / 2 + self.rng.below(n / 2 + 1),
            _ => 1 + self.rng.below(4),
        };
        for _ in 0..tries {
            let (name, sort) = consts[self.rng.below(consts.len() as u64) as usize].clone();
            let v = self.random_value(&sort);
            self.z3.send("(push 1)");
            self.z3.send(&format!("(assert (= {} {}))", smtref::print_symbol(&name), v));
            let r = self.z3.roundtrip("(check-sat)");
            if r == "sat" {
                self.model_pushes += 1;
            } else {
                self.z3.send("(pop 1)");
            }
        }
        // make sure the backend holds a model for the final scope
        let r = self.z3.roundtrip("(check-sat)");
        debug_assert_eq!(r, "sat");
    }

    fn print_value(&mut self, v: &SVal) -> String {
        let style = if self.randomize { self.rng.below(2) as u32 } else { 0 };
        match v {
            SVal::B(..) => smtref::print_value(v, style),
            SVal::A(sort, a) => {
                let Sort::Array(i, d) = sort else { unreachable!() };
                // store chain over as const, entries in random order (distinct indices commute)
                let mut entries: Vec<(Bv, Bv)> = a
                    .normalized()
                    .map
                    .iter()
                    .map(|(k, v)| (Bv::new(a.iw, k.clone()), Bv::new(a.dw, v.clone())))
                    .collect();
                if self.randomize {
                    for k in (1..entries.len()).rev() {
                        let j = self.rng.below(k as u64 + 1) as usize;
                        entries.swap(k, j);
                    }
                }
                let mut out = format!(
                    "((as const {}) {})",
                    sort.to_smt(),
                    smtref::print_bv(d, &Bv::new(a.dw, a.default.clone()), style)
                );
                // solvers also print chains in which an index is written twice (the outer store wins) or in
                // which the default value is stored explicitly (z3 keeps both writes of
                // `store(store(store(c,4,5),1,7),4,8)`): add such shadowed / redundant stores
                let mut chain: Vec<(Bv, Bv)> = vec![];
                for (k, val) in entries.iter() {
                    if self.randomize && self.rng.below(3) == 0 {
                        let junk = Bv::new(a.dw, (val.v.clone() + 1u32 + self.rng.below(5)) % val.modulus());
                        let pos = self.rng.below(chain.len() as u64 + 1) as usize;
                        chain.insert(pos, (k.clone(), junk));
                    }
                    chain.push((k.clone(), val.clone()));
                }
                if self.randomize && a.iw <= 16 && self.rng.below(4) == 0 {
                    let k = Bv::from_u64(a.iw, self.rng.below(1u64 << a.iw));
                    if !entries.iter().any(|(e, _)| *e == k) {
                        let pos = self.rng.below(chain.len() as u64 + 1) as usize;
                        chain.insert(pos, (k, Bv::new(a.dw, a.default.clone())));
                    }
                }
                for (k, val) in chain.iter() {
                    out = format!("(store {} {} {})", out, smtref::print_bv(i, k, style), smtref::print_bv(d, val, style));
                }
                out
            }
        }
    }

    /// value of a (checked) term in the backend's current model: declared constants are read from
    /// the backend (always literals; arrays element by element), every other term is evaluated by
    /// `smtref::eval` under those values. z3 4.8 answers `get-value` on a *defined* term with
    /// unevaluated quantifiers / lambdas when array models are functions, so its evaluator is not used.
    fn value_of(&mut self, term: &SExpr, sort: &Sort) -> Result<SVal, String> {
        let is_declared_const =
            term.sym().map(|n| self.scopes.get(n).map(|b| b.def.is_none()).unwrap_or(false)).unwrap_or(false);
        if is_declared_const {
            return self.const_value(term, sort);
        }
        if self.model_cache.is_none() {
            let mut env = smtref::ValEnv::new();
            for (name, csort) in self.scopes.declared_consts() {
                let t = SExpr::Atom(Atom::Symbol(name.clone()));
                let v = self.const_value(&t, &csort)?;
                env.insert(name, v);
            }
            smtref::eval_definitions(&self.scopes, &mut env)?;
            self.model_cache = Some(env);
        }
        let env = self.model_cache.as_ref().unwrap();
        let v = smtref::eval(term, &self.scopes, env, &mut vec![])?;
        Ok(match (sort, v) {
            (Sort::Bool, SVal::B(_, b)) => SVal::B(Sort::Bool, b),
            (_, v) => v,
        })
    }

    /// value of a declared constant in the backend's current model
    fn const_value(&mut self, term: &SExpr, sort: &Sort) -> Result<SVal, String> {
        if let Some(v) = term.sym().and_then(|n| self.const_cache.get(n)) {
            return Ok(v.clone());
        }
        let v = self.const_value_uncached(term, sort)?;
        if let Some(n) = term.sym() {
            self.const_cache.insert(n.to_string(), v.clone());
        }
        Ok(v)
    }

    fn const_value_uncached(&mut self, term: &SExpr, sort: &Sort) -> Result<SVal, String> {
        match sort {
            Sort::Bool | Sort::BV(_) => {
                let r = self.z3.roundtrip(&format!("(get-value ({}))", smtref::print_sexpr(term)));
                let parsed = smtref::read_one(&r).map_err(|e| format!("backend reply `{}`: {}", r, e))?;
                let pair = parsed.list().and_then(|l| l.first()).and_then(|p| p.list()).ok_or("backend get-value shape")?;
                let sc = Scopes::new();
                let v = smtref::eval(&pair[1], &sc, &smtref::ValEnv::new(), &mut vec![])?;
                Ok(match (sort, v) {
                    (Sort::Bool, SVal::B(_, b)) => SVal::B(Sort::Bool, b),
                    (_, v) => v,
                })
            }
            Sort::Array(i, d) => {
                let iw = i.width();
                if iw > 8 {
                    return Err("array index too wide for element-wise read".into());
                }
                // read every element, choose the most frequent value as default
                let mut vals: Vec<Bv> = vec![];
                let mut q = String::from("(get-value (");
                for k in 0..(1u64 << iw) {
                    let idx = smtref::print_bv(i, &Bv::from_u64(iw, k), 0);
                    q.push_str(&format!("(select {} {}) ", smtref::print_sexpr(term), idx));
                }
                q.push_str("))");
                let r = self.z3.roundtrip(&q);
                let parsed = smtref::read_one(&r).map_err(|e| format!("backend reply `{}`: {}", r, e))?;
                let sc = Scopes::new();
                for p in parsed.list().ok_or("shape")? {
                    let pl = p.list().ok_or("shape")?;
                    let v = smtref::eval(&pl[1], &sc, &smtref::ValEnv::new(), &mut vec![])?;
                    vals.push(v.bv().clone());
                }
                let mut best = vals[0].clone();
                let mut best_n = 0;
                for v in vals.iter() {
                    let n = vals.iter().filter(|x| *x == v).count();
                    if n > best_n {
                        best_n = n;
                        best = v.clone();
                    }
                }
                // sometimes pick a different default so that every index gets an explicit store
                if self.randomize && self.rng.below(4) == 0 {
                    best = Bv::new(d.width(), self.rng.bits(d.width()));
                }
                let mut a = pv::refval::Arr::constant(iw, &best);
                for (k, v) in vals.iter().enumerate() {
                    a = a.store(&Bv::from_u64(iw, k as u64), v);
                }
                Ok(SVal::A(sort.clone(), a))
            }
        }
    }

    fn handle(&mut self, cmd: &SExpr) {
        let text = smtref::print_sexpr(cmd);
        let name = cmd.list().and_then(|l| l.first()).and_then(|x| x.sym()).unwrap_or("").to_string();
        // ---- 1. conformance check (scopes are updated by the checker)
        let kind = match smtref::check_command(cmd, &mut self.scopes, &self.profile) {
            Ok(k) => k,
            Err(e) => {
                let msg = format!("(error \"{}: {}\")", self.profile_name, e.replace('"', "'"));
                self.log("reject", &text, &msg);
                self.reply(&msg);
                return;
            }
        };
        use smtref::CmdKind::*;
        if !matches!(kind, GetValue(_)) {
            self.model_cache = None;
            self.const_cache.clear();
        }
        if self.profile_name == "yices-smt2" && matches!(kind, GetUnsatAssumptions) {
            let msg = "(error \"yices-smt2: get-unsat-assumptions is not supported\")";
            self.log("reject", &text, msg);
            self.reply(msg);
            return;
        }
        match kind {
            Exit => {
                self.log("cmd", &text, "");
                let _ = self.z3.child.kill();
                std::process::exit(0);
            }
            SetLogic => {
                self.log("cmd", &text, "");
                self.z3.send("(set-logic ALL)");
            }
            SetOption | SetInfo => {
                self.log("cmd", &text, "");
            }
            DeclareConst(_) | DefineFun(_) | Assert | Push(_) | Pop(_) => {
                self.close_model_scope();
                self.last_unsat = false;
                let r = self.z3.roundtrip(&text);
                if !r.is_empty() {
                    // the independent checker accepted what z3 rejects: harness trouble, be loud
                    self.log("BACKEND-ERROR", &text, &r);
                    self.reply(&format!("(error \"refsolver backend disagrees: {}\")", r.replace('"', "'")));
                } else {
                    self.log("cmd", &text, "");
                }
            }
            CheckSat | CheckSatAssuming(_) => {
                self.close_model_scope();
                self.responses += 1;
                if self.maybe_fault(&text) {
                    return;
                }
                let assumptions: Vec<SExpr> = if name == "check-sat-assuming" {
                    cmd.list().unwrap()[1].list().unwrap().to_vec()
                } else {
                    vec![]
                };
                let r = self.z3.roundtrip(&text);
                self.last_assumptions = assumptions.clone();
                self.last_unsat = r == "unsat";
                if r == "sat" {
                    self.randomize_model(&assumptions);
                }
                if r != "sat" && r != "unsat" && r != "unknown" {
                    self.log("BACKEND-ERROR", &text, &r);
                }
                self.log("check", &text, &r);
                self.reply(&r);
            }
            GetValue(_) => {
                self.responses += 1;
                if self.maybe_fault(&text) {
                    return;
                }
                let terms = cmd.list().unwrap()[1].list().unwrap().to_vec();
                let mut parts = vec![];
                let mut canon = vec![];
                for t in terms.iter() {
                    let sort = smtref::sort_of(t, &self.scopes, &mut vec![]).unwrap();
                    match self.value_of(t, &sort) {
                        Ok(v) => {
                            canon.push(smtref::print_value(&v, 0));
                            let printed = self.print_value(&v);
                            parts.push(format!("({} {})", smtref::print_sexpr(t), printed));
                        }
                        Err(e) => {
                            let msg = format!("(error \"{}: get-value: {}\")", self.profile_name, e.replace('"', "'"));
                            self.log("BACKEND-ERROR", &text, &msg);
                            self.reply(&msg);
                            return;
                        }
                    }
                }
                let resp = format!("({})", parts.join(" "));
                self.log("value", &text, &canon.join(" "));
                self.reply(&resp);
            }
            GetUnsatAssumptions => {
                self.responses += 1;
                if self.maybe_fault(&text) {
                    return;
                }
                if !self.last_unsat {
                    let msg = "(error \"get-unsat-assumptions: the last check was not unsat\")";
                    self.log("reject", &text, msg);
                    self.reply(msg);
                    return;
                }
                let all = self.last_assumptions.clone();
                let z3core = self.z3.roundtrip("(get-unsat-assumptions)");
                let z3lits: Vec<SExpr> =
                    smtref::read_one(&z3core).ok().and_then(|s| s.list().map(|l| l.to_vec())).unwrap_or_default();
                let core: Vec<SExpr> = match self.core_mode.as_str() {
                    "full" => all.clone(),
                    "rand" => {
                        let mut c = z3lits.clone();
                        for a in all.iter() {
                            if !c.contains(a) && self.rng.below(2) == 0 {
                                c.push(a.clone());
                            }
                        }
                        // shuffle
                        for k in (1..c.len()).rev() {
                            let j = self.rng.below(k as u64 + 1) as usize;
                            c.swap(k, j);
                        }
                        c
                    }
                    "min" => {
                        let mut c = if z3lits.is_empty() { all.clone() } else { z3lits.clone() };
                        let mut k = 0;
                        while k < c.len() {
                            let mut rest = c.clone();
                            rest.remove(k);
                            let q = format!(
                                "(check-sat-assuming ({}))",
                                rest.iter().map(smtref::print_sexpr).collect::<Vec<_>>().join(" ")
                            );
                            if self.z3.roundtrip(&q) == "unsat" {
                                c = rest;
                            } else {
                                k += 1;
                            }
                        }
                        // restore the unsat state for consistency
                        let q = format!(
                            "(check-sat-assuming ({}))",
                            all.iter().map(smtref::print_sexpr).collect::<Vec<_>>().join(" ")
                        );
                        let _ = self.z3.roundtrip(&q);
                        c
                    }
                    _ => z3lits.clone(),
                };
                let resp = format!("({})", core.iter().map(smtref::print_sexpr).collect::<Vec<_>>().join(" "));
                self.log("core", &text, &resp);
                self.reply(&resp);
            }
            GetModel => {
                self.responses += 1;
                let r = self.z3.roundtrip(&text);
                self.log("value", &text, &r);
                self.reply(&r);
            }
        }
    }
}

/// Splits the byte stream into complete top-level s-expressions.
fn read_command(input: &mut impl BufRead, buf: &mut String) -> Option<String> {
    loop {
        // try to cut one balanced expression from the buffer
        let mut depth = 0i64;
        let mut in_bar = false;
        let mut in_str = false;
        let mut in_comment = false;
        let mut started = false;
        let mut end = None;
        for (i, c) in buf.char_indices() {
            if in_comment {
                if c == '\n' {
                    in_comment = false;
                }
                continue;
            }
            if in_bar {
                if c == '|' {
                    in_bar = false;
                }
                continue;
            }
            if in_str {
                if c == '"' {
                    in_str = false;
                }
                continue;
            }
            match c {
                ';' => in_comment = true,
                '|' => in_bar = true,
                '"' => in_str = true,
                '(' => {
                    depth += 1;
                    started = true;
                }
                ')' => {
                    depth -= 1;
                    if depth <= 0 {
                        end = Some(i + 1);
                        break;
                    }
                }
                _ => {}
            }
        }
        if let (true, Some(e)) = (started || end.is_some(), end) {
            let cmd: String = buf[..e].to_string();
            *buf = buf[e..].to_string();
            return Some(cmd);
        }
        let mut line = String::new();
        match input.read_line(&mut line) {
            Ok(0) | Err(_) => return None,
            Ok(_) => buf.push_str(&line),
        }
    }
}

fn main() {
    // a bug in the reference solver must not look like a solver verdict or a solver error of the
    // code under test: answer with a marked error (classified as harness trouble) and stop
    std::panic::set_hook(Box::new(|info| {
        let msg = format!("{}", info).replace('"', "'").replace('\n', " ");
        println!("(error \"refsolver internal: {}\")", msg);
        let _ = std::io::stdout().flush();
        std::process::exit(4);
    }));
    let argv0 = std::env::args().next().unwrap_or_default();
    let profile_name = std::path::Path::new(&argv0)
        .file_name()
        .map(|s| s.to_string_lossy().to_string())
        .unwrap_or_else(|| "z3".into());
    let profile = match profile_name.as_str() {
        "yices-smt2" => Profile { no_check_sat_assuming: true, no_const_array: true, strict_assumption_literals: false },
        _ => Profile::default(),
    };
    let seed: u64 = std::env::var("REFSOLVER_SEED").ok().and_then(|s| s.parse().ok()).unwrap_or(0);
    let core_mode = std::env::var("REFSOLVER_CORE").unwrap_or_else(|_| "z3".into());
    let fault = std::env::var("REFSOLVER_FAULT").ok().and_then(|s| {
        let (n, k) = s.split_once(':')?;
        Some((n.parse::<u64>().ok()?, k.to_string()))
    });
    let log = std::env::var("REFSOLVER_LOG")
        .ok()
        .and_then(|p| std::fs::OpenOptions::new().create(true).append(true).open(p).ok());
    let mut shim = Shim {
        profile_name,
        profile,
        scopes: Scopes::new(),
        z3: Backend::start(),
        rng: SplitMix(seed ^ 0x5851F42D4C957F2D),
        randomize: seed != 0,
        core_mode,
        fault,
        responses: 0,
        log,
        model_pushes: 0,
        model_cache: None,
        const_cache: Default::default(),
        last_assumptions: vec![],
        last_unsat: false,
    };
    let stdin = std::io::stdin();
    let mut input = stdin.lock();
    let mut buf = String::new();
    while let Some(text) = read_command(&mut input, &mut buf) {
        match smtref::read_all(&text) {
            Ok(cmds) => {
                for c in cmds {
                    shim.handle(&c);
                }
            }
            Err(e) => {
                let msg = format!("(error \"{}: lexical error: {}\")", shim.profile_name, e.replace('"', "'"));
                shim.log("reject", &text, &msg);
                shim.reply(&msg);
            }
        }
    }
    let _ = shim.z3.child.kill();
    let _ = Atom::Symbol(String::new());
}
