//! Grammar-based generator of btor2 *text* that carries its own line-by-line semantics (evaluated
//! with `refval`, directly from the btor2 definition, never via patronus).

use crate::refval::{Arr, Bv, Val};
use crate::tape::Tape;
use num_bigint::BigUint;
use std::collections::HashMap;

#[derive(Clone, Copy, Debug, PartialEq, Eq, Hash)]
pub enum BSort {
    Bv(u32),
    Arr(u32, u32),
}

#[derive(Clone, Debug)]
pub enum LineKind {
    Sort(BSort),
    Input,
    State,
    /// op name, operands (line index, negated), numeric parameters, optional literal text
    Op { op: String, args: Vec<(usize, bool)>, params: Vec<u32>, lit: Option<String> },
    Init { state: usize, expr: (usize, bool) },
    Next { state: usize, expr: (usize, bool) },
    Output((usize, bool)),
    Bad((usize, bool)),
    Constraint((usize, bool)),
    Comment(String),
}

#[derive(Clone, Debug)]
pub struct Line {
    pub id: u64,
    pub kind: LineKind,
    /// the sort of the value this line defines (nodes, inputs, states); for sort lines the sort itself
    pub sort: Option<BSort>,
    /// line index of the sort line used as this line's declared sort
    pub sort_line: Option<usize>,
    pub name: Option<String>,
}

#[derive(Clone, Debug, Default)]
pub struct BtorFile {
    pub lines: Vec<Line>,
}

pub const UNARY: [&str; 10] = ["not", "neg", "redand", "redor", "redxor", "slice", "uext", "sext", "inc", "dec"];
pub const BINARY: [&str; 31] = [
    "iff", "implies", "sgt", "ugt", "sgte", "ugte", "slt", "ult", "slte", "ulte", "and", "nand", "nor",
    "or", "xnor", "xor", "sll", "sra", "srl", "add", "mul", "sdiv", "udiv", "smod", "srem", "urem", "sub",
    "concat", "eq", "neq", "read",
];
pub const CONSTS: [&str; 6] = ["const", "constd", "consth", "zero", "one", "ones"];

impl BtorFile {
    pub fn is_node(&self, i: usize) -> bool {
        matches!(self.lines[i].kind, LineKind::Input | LineKind::State | LineKind::Op { .. })
    }

    pub fn render_line(&self, i: usize) -> String {
        let l = &self.lines[i];
        let r = |(j, neg): &(usize, bool)| -> String {
            format!("{}{}", if *neg { "-" } else { "" }, self.lines[*j].id)
        };
        let sid = |l: &Line| -> String { self.lines[l.sort_line.unwrap()].id.to_string() };
        let mut s = match &l.kind {
            LineKind::Comment(c) => return format!("; {}", c),
            LineKind::Sort(BSort::Bv(w)) => format!("{} sort bitvec {}", l.id, w),
            LineKind::Sort(BSort::Arr(..)) => {
                // the index/data sort lines are stored in params via sort_line of helper: encoded in name
                format!("{} sort array {}", l.id, l.name.clone().unwrap_or_default())
            }
            LineKind::Input => format!("{} input {}", l.id, sid(l)),
            LineKind::State => format!("{} state {}", l.id, sid(l)),
            LineKind::Op { op, args, params, lit } => {
                let mut s = format!("{} {} {}", l.id, op, sid(l));
                for a in args {
                    s.push(' ');
                    s.push_str(&r(a));
                }
                for p in params {
                    s.push(' ');
                    s.push_str(&p.to_string());
                }
                if let Some(lit) = lit {
                    s.push(' ');
                    s.push_str(lit);
                }
                s
            }
            LineKind::Init { state, expr } => {
                format!("{} init {} {} {}", l.id, sid(l), self.lines[*state].id, r(expr))
            }
            LineKind::Next { state, expr } => {
                format!("{} next {} {} {}", l.id, sid(l), self.lines[*state].id, r(expr))
            }
            LineKind::Output(e) => format!("{} output {}", l.id, r(e)),
            LineKind::Bad(e) => format!("{} bad {}", l.id, r(e)),
            LineKind::Constraint(e) => format!("{} constraint {}", l.id, r(e)),
        };
        if !matches!(l.kind, LineKind::Sort(_)) {
            if let Some(n) = &l.name {
                s.push(' ');
                s.push_str(n);
            }
        }
        s
    }

    pub fn render(&self) -> String {
        let mut out = String::new();
        for i in 0..self.lines.len() {
            out.push_str(&self.render_line(i));
            out.push('\n');
        }
        out
    }

    /// input lines, then state lines without init and next (the reader demotes them), in order
    pub fn expected_inputs(&self) -> Vec<usize> {
        let mut v: Vec<usize> =
            (0..self.lines.len()).filter(|i| matches!(self.lines[*i].kind, LineKind::Input)).collect();
        for i in 0..self.lines.len() {
            if matches!(self.lines[i].kind, LineKind::State) && !self.has_init_or_next(i) {
                v.push(i);
            }
        }
        v
    }
    pub fn expected_states(&self) -> Vec<usize> {
        (0..self.lines.len())
            .filter(|i| matches!(self.lines[*i].kind, LineKind::State) && self.has_init_or_next(*i))
            .collect()
    }
    pub fn has_init_or_next(&self, state: usize) -> bool {
        self.lines.iter().any(|l| match &l.kind {
            LineKind::Init { state: s, .. } | LineKind::Next { state: s, .. } => *s == state,
            _ => false,
        })
    }
    pub fn init_of(&self, state: usize) -> Option<(usize, bool)> {
        // the last init line wins in the reader (modify_state overwrites)
        self.lines.iter().rev().find_map(|l| match &l.kind {
            LineKind::Init { state: s, expr } if *s == state => Some(*expr),
            _ => None,
        })
    }
    pub fn next_of(&self, state: usize) -> Option<(usize, bool)> {
        self.lines.iter().rev().find_map(|l| match &l.kind {
            LineKind::Next { state: s, expr } if *s == state => Some(*expr),
            _ => None,
        })
    }
    pub fn symbols(&self) -> Vec<usize> {
        (0..self.lines.len())
            .filter(|i| matches!(self.lines[*i].kind, LineKind::Input | LineKind::State))
            .collect()
    }
}

// ---------------------------------------------------------------------------------------------
// semantics
// ---------------------------------------------------------------------------------------------

pub fn parse_const(op: &str, lit: Option<&str>, w: u32) -> Bv {
    match op {
        "zero" => Bv::zero(w),
        "one" => Bv::from_u64(w, 1),
        "ones" => Bv::ones(w),
        "const" => Bv::new(w, BigUint::parse_bytes(lit.unwrap().as_bytes(), 2).unwrap()),
        "consth" => Bv::new(w, BigUint::parse_bytes(lit.unwrap().as_bytes(), 16).unwrap()),
        "constd" => {
            let s = lit.unwrap();
            if let Some(m) = s.strip_prefix('-') {
                Bv::new(w, BigUint::parse_bytes(m.as_bytes(), 10).unwrap()).neg()
            } else {
                Bv::new(w, BigUint::parse_bytes(s.as_bytes(), 10).unwrap())
            }
        }
        _ => unreachable!(),
    }
}

/// result sort of an operator application, or why it is ill-sorted (btor2 typing rules)
pub fn op_sort(op: &str, args: &[BSort], params: &[u32]) -> Result<BSort, String> {
    let bv = |i: usize| -> Result<u32, String> {
        match args.get(i) {
            Some(BSort::Bv(w)) => Ok(*w),
            Some(_) => Err(format!("{}: operand {} must be a bit-vector", op, i)),
            None => Err(format!("{}: missing operand {}", op, i)),
        }
    };
    let same2 = || -> Result<u32, String> {
        let (a, b) = (bv(0)?, bv(1)?);
        if a != b { Err(format!("{}: operand widths {} and {} differ", op, a, b)) } else { Ok(a) }
    };
    Ok(match op {
        "not" | "neg" | "inc" | "dec" => BSort::Bv(bv(0)?),
        "redand" | "redor" | "redxor" => {
            bv(0)?;
            BSort::Bv(1)
        }
        "slice" => {
            let w = bv(0)?;
            let (hi, lo) = (params[0], params[1]);
            if hi >= w || lo > hi {
                return Err(format!("slice [{}:{}] of width {}", hi, lo, w));
            }
            BSort::Bv(hi - lo + 1)
        }
        "uext" | "sext" => BSort::Bv(bv(0)? + params[0]),
        "iff" | "implies" => {
            if bv(0)? != 1 || bv(1)? != 1 {
                return Err(format!("{}: boolean operands required", op));
            }
            BSort::Bv(1)
        }
        "sgt" | "ugt" | "sgte" | "ugte" | "slt" | "ult" | "slte" | "ulte" => {
            same2()?;
            BSort::Bv(1)
        }
        "eq" | "neq" => {
            if args.len() != 2 || args[0] != args[1] {
                return Err(format!("{}: operands of different sorts", op));
            }
            BSort::Bv(1)
        }
        "and" | "nand" | "nor" | "or" | "xnor" | "xor" | "sll" | "sra" | "srl" | "add" | "mul" | "sdiv"
        | "udiv" | "smod" | "srem" | "urem" | "sub" => BSort::Bv(same2()?),
        "concat" => BSort::Bv(bv(0)? + bv(1)?),
        "read" => match (args.first(), args.get(1)) {
            (Some(BSort::Arr(iw, dw)), Some(BSort::Bv(w))) if iw == w => BSort::Bv(*dw),
            _ => return Err("read: needs array and matching index".into()),
        },
        "ite" => {
            if bv(0)? != 1 {
                return Err("ite: condition must be 1 bit".into());
            }
            if args.len() != 3 || args[1] != args[2] {
                return Err("ite: branches of different sorts".into());
            }
            args[1]
        }
        "write" => match (args.first(), args.get(1), args.get(2)) {
            (Some(BSort::Arr(iw, dw)), Some(BSort::Bv(i)), Some(BSort::Bv(d))) if iw == i && dw == d => args[0],
            _ => return Err("write: needs array, matching index and data".into()),
        },
        other => return Err(format!("unknown op {}", other)),
    })
}

pub fn apply_op(op: &str, a: &[Val], params: &[u32]) -> Val {
    let b = |x: bool| Val::Bv(Bv::bool(x));
    let v = |i: usize| a[i].bv();
    match op {
        "not" => Val::Bv(v(0).not()),
        "neg" => Val::Bv(v(0).neg()),
        "inc" => Val::Bv(v(0).add(&Bv::from_u64(v(0).w, 1))),
        "dec" => Val::Bv(v(0).sub(&Bv::from_u64(v(0).w, 1))),
        "redand" => b(v(0).v == crate::tape::ones(v(0).w)),
        "redor" => b(v(0).is_true()),
        "redxor" => b(v(0).v.count_ones() % 2 == 1),
        "slice" => Val::Bv(v(0).slice(params[0], params[1])),
        "uext" => Val::Bv(v(0).zext(params[0])),
        "sext" => Val::Bv(v(0).sext(params[0])),
        "iff" => b(v(0) == v(1)),
        "implies" => b(!v(0).is_true() || v(1).is_true()),
        "sgt" => b(v(0).sgt(v(1))),
        "ugt" => b(v(0).ugt(v(1))),
        "sgte" => b(v(0).sge(v(1))),
        "ugte" => b(v(0).uge(v(1))),
        "slt" => b(v(1).sgt(v(0))),
        "ult" => b(v(1).ugt(v(0))),
        "slte" => b(v(1).sge(v(0))),
        "ulte" => b(v(1).uge(v(0))),
        "and" => Val::Bv(v(0).and(v(1))),
        "nand" => Val::Bv(v(0).and(v(1)).not()),
        "nor" => Val::Bv(v(0).or(v(1)).not()),
        "or" => Val::Bv(v(0).or(v(1))),
        "xnor" => Val::Bv(v(0).xor(v(1)).not()),
        "xor" => Val::Bv(v(0).xor(v(1))),
        "sll" => Val::Bv(v(0).shl(v(1))),
        "sra" => Val::Bv(v(0).ashr(v(1))),
        "srl" => Val::Bv(v(0).lshr(v(1))),
        "add" => Val::Bv(v(0).add(v(1))),
        "mul" => Val::Bv(v(0).mul(v(1))),
        "sdiv" => Val::Bv(v(0).sdiv(v(1))),
        "udiv" => Val::Bv(v(0).udiv(v(1))),
        "smod" => Val::Bv(v(0).smod(v(1))),
        "srem" => Val::Bv(v(0).srem(v(1))),
        "urem" => Val::Bv(v(0).urem(v(1))),
        "sub" => Val::Bv(v(0).sub(v(1))),
        "concat" => Val::Bv(v(0).concat(v(1))),
        "eq" => b(a[0].sem_eq(&a[1])),
        "neq" => b(!a[0].sem_eq(&a[1])),
        "read" => Val::Bv(a[0].arr().select(v(1))),
        "ite" => {
            if v(0).is_true() { a[1].clone() } else { a[2].clone() }
        }
        "write" => Val::Arr(a[0].arr().store(v(1), v(2))),
        other => panic!("harness: apply_op {}", other),
    }
}

impl BtorFile {
    fn deref(&self, r: (usize, bool), vals: &HashMap<usize, Val>) -> Val {
        let v = vals[&r.0].clone();
        if r.1 {
            Val::Bv(v.bv().not())
        } else {
            v
        }
    }
    /// values of all node lines given values for input/state lines
    pub fn eval_all(&self, sym_vals: &HashMap<usize, Val>) -> HashMap<usize, Val> {
        let mut vals: HashMap<usize, Val> = HashMap::new();
        for (i, l) in self.lines.iter().enumerate() {
            match &l.kind {
                LineKind::Input | LineKind::State => {
                    vals.insert(i, sym_vals[&i].clone());
                }
                LineKind::Op { op, args, params, lit } => {
                    let v = if CONSTS.contains(&op.as_str()) {
                        let BSort::Bv(w) = l.sort.unwrap() else { unreachable!() };
                        Val::Bv(parse_const(op, lit.as_deref(), w))
                    } else {
                        let a: Vec<Val> = args.iter().map(|r| self.deref(*r, &vals)).collect();
                        apply_op(op, &a, params)
                    };
                    vals.insert(i, v);
                }
                _ => {}
            }
        }
        vals
    }
    pub fn value_of_ref(&self, r: (usize, bool), vals: &HashMap<usize, Val>) -> Val {
        self.deref(r, vals)
    }
}

// ---------------------------------------------------------------------------------------------
// generation
// ---------------------------------------------------------------------------------------------

pub struct Gen<'a, 'b> {
    pub f: BtorFile,
    t: &'a mut Tape<'b>,
    next_id: u64,
    name_count: usize,
    pub widths: Vec<u32>,
    pub arr: Option<(u32, u32)>,
    pub wide: bool,
    names_used: Vec<String>,
}

const NAMES: [&str; 10] = ["clk", "rst", "data_in", "count", "mem", "x$y", "top.u1.sig", "valid", "q", "n123"];

impl<'a, 'b> Gen<'a, 'b> {
    pub fn new(t: &'a mut Tape<'b>, wide: bool) -> Self {
        Gen { f: BtorFile::default(), t, next_id: 1, name_count: 0, names_used: vec![], widths: vec![], arr: None, wide }
    }

    fn fresh_id(&mut self) -> u64 {
        // mostly consecutive, sometimes gaps
        let id = self.next_id;
        self.next_id += 1 + if self.t.chance(24) { self.t.below(5) as u64 } else { 0 };
        id
    }

    fn push(&mut self, kind: LineKind, sort: Option<BSort>, sort_line: Option<usize>, name: Option<String>) -> usize {
        let id = self.fresh_id();
        self.f.lines.push(Line { id, kind, sort, sort_line, name });
        self.f.lines.len() - 1
    }

    fn maybe_name(&mut self, p: u32) -> Option<String> {
        if self.t.chance(p) {
            // labels need not be unique in btor2 (the reader makes them unique): sometimes repeat an
            // earlier label, use an earlier label plus the `_<k>` suffix a uniquifier would hand out, or
            // a name that looks like the reader's defaults for unnamed lines
            if !self.names_used.is_empty() && self.t.chance(48) {
                let prev = self.names_used[self.t.below(self.names_used.len() as u32) as usize].clone();
                let name = match self.t.below(3) {
                    0 => prev,
                    1 => format!("{}_{}", prev, self.t.below(3)),
                    _ => format!("{}_{}", ["_input", "_state", "_output", "_bad"][self.t.below(4) as usize], self.t.below(3)),
                };
                self.names_used.push(name.clone());
                return Some(name);
            }
            let base = NAMES[self.t.below(NAMES.len() as u32) as usize];
            self.name_count += 1;
            let name = if self.t.chance(40) { base.to_string() } else { format!("{}{}", base, self.name_count) };
            self.names_used.push(name.clone());
            Some(name)
        } else {
            None
        }
    }

    /// line index of a sort line for `s` (sometimes a fresh duplicate declaration)
    pub fn sort_line(&mut self, s: BSort) -> usize {
        let existing: Vec<usize> = (0..self.f.lines.len())
            .filter(|i| matches!(&self.f.lines[*i].kind, LineKind::Sort(x) if *x == s))
            .collect();
        if !existing.is_empty() && !self.t.chance(16) {
            return existing[self.t.below(existing.len() as u32) as usize];
        }
        match s {
            BSort::Bv(_) => self.push(LineKind::Sort(s), Some(s), None, None),
            BSort::Arr(iw, dw) => {
                let i = self.sort_line(BSort::Bv(iw));
                let d = self.sort_line(BSort::Bv(dw));
                let text = format!("{} {}", self.f.lines[i].id, self.f.lines[d].id);
                self.push(LineKind::Sort(s), Some(s), None, Some(text))
            }
        }
    }

    fn nodes_of(&self, s: BSort) -> Vec<usize> {
        (0..self.f.lines.len()).filter(|i| self.f.is_node(*i) && self.f.lines[*i].sort == Some(s)).collect()
    }

    fn lit_line(&mut self, w: u32) -> usize {
        let sl = self.sort_line(BSort::Bv(w));
        let v = Bv::new(w, self.t.bits(w));
        // tokens that read differently in base 10 and base 16 ("10" .. "25"), drawn from a small pool so
        // that one file often holds the same token under both constructors (and the same width)
        if w >= 6 && self.t.chance(36) {
            let token = self.t.range(10, 25).to_string();
            let hex = self.t.flag();
            let value = u64::from_str_radix(&token, if hex { 16 } else { 10 }).unwrap();
            if w >= 7 || value < (1u64 << w) {
                let name = self.maybe_name(12);
                return self.push(
                    LineKind::Op { op: if hex { "consth" } else { "constd" }.to_string(), args: vec![], params: vec![], lit: Some(token) },
                    Some(BSort::Bv(w)),
                    Some(sl),
                    name,
                );
            }
        }
        let (op, lit): (&str, Option<String>) = match self.t.below(7) {
            0 => ("zero", None),
            1 => ("one", None),
            2 => ("ones", None),
            3 => ("const", Some(v.to_bit_str())),
            4 => ("consth", Some(v.v.to_str_radix(16))),
            5 => {
                // negative decimal: -m with m <= 2^(w-1)
                let half = BigUint::from(1u32) << (w - 1);
                let m = &v.v % (&half + BigUint::from(1u32));
                if m == BigUint::from(0u32) { ("constd", Some("0".into())) } else { ("constd", Some(format!("-{}", m))) }
            }
            _ => ("constd", Some(v.v.to_str_radix(10))),
        };
        let name = self.maybe_name(12);
        self.push(
            LineKind::Op { op: op.to_string(), args: vec![], params: vec![], lit },
            Some(BSort::Bv(w)),
            Some(sl),
            name,
        )
    }

    /// reference to a node of sort `s` (creating a literal / symbol when none exists)
    fn operand(&mut self, s: BSort) -> (usize, bool) {
        let c = self.nodes_of(s);
        let idx = if c.is_empty() || self.t.chance(30) {
            match s {
                BSort::Bv(w) => {
                    if self.t.flag() {
                        self.lit_line(w)
                    } else {
                        let st = self.t.flag();
                        self.symbol_line(s, st)
                    }
                }
                BSort::Arr(..) => self.symbol_line(s, true),
            }
        } else if self.t.flag() {
            c[c.len() - 1 - self.t.below(c.len().min(4) as u32) as usize]
        } else {
            c[self.t.below(c.len() as u32) as usize]
        };
        let neg = matches!(s, BSort::Bv(_)) && self.t.chance(56);
        (idx, neg)
    }

    pub fn symbol_line(&mut self, s: BSort, state: bool) -> usize {
        let sl = self.sort_line(s);
        let name = self.maybe_name(150);
        self.push(if state { LineKind::State } else { LineKind::Input }, Some(s), Some(sl), name)
    }

    fn pick_width(&mut self) -> u32 {
        let i = self.t.below(self.widths.len() as u32) as usize;
        self.widths[i]
    }

    pub fn op_line(&mut self) -> usize {
        let kind = self.t.weighted(&[6, 16, 3, if self.arr.is_some() { 4 } else { 0 }]);
        let (op, args, params, res): (String, Vec<(usize, bool)>, Vec<u32>, BSort) = match kind {
            0 => {
                let op = UNARY[self.t.below(UNARY.len() as u32) as usize];
                let w = self.pick_width();
                let a = self.operand(BSort::Bv(w));
                match op {
                    "slice" => {
                        let lo = self.t.below(w);
                        let hi = lo + self.t.below(w - lo);
                        (op.into(), vec![a], vec![hi, lo], BSort::Bv(hi - lo + 1))
                    }
                    "uext" | "sext" => {
                        let by = if self.t.chance(40) { 0 } else { self.t.range(1, 5) };
                        (op.into(), vec![a], vec![by], BSort::Bv(w + by))
                    }
                    "redand" | "redor" | "redxor" => (op.into(), vec![a], vec![], BSort::Bv(1)),
                    _ => (op.into(), vec![a], vec![], BSort::Bv(w)),
                }
            }
            1 => {
                let op = BINARY[self.t.below((BINARY.len() - 1) as u32) as usize]; // all but read
                match op {
                    "iff" | "implies" => {
                        let a = self.operand(BSort::Bv(1));
                        let b = self.operand(BSort::Bv(1));
                        (op.into(), vec![a, b], vec![], BSort::Bv(1))
                    }
                    "concat" => {
                        let wa = self.pick_width();
                        let wb = self.pick_width();
                        let a = self.operand(BSort::Bv(wa));
                        let b = self.operand(BSort::Bv(wb));
                        (op.into(), vec![a, b], vec![], BSort::Bv(wa + wb))
                    }
                    "eq" | "neq" if self.arr.is_some() && self.t.chance(40) => {
                        let (iw, dw) = self.arr.unwrap();
                        let a = self.operand(BSort::Arr(iw, dw));
                        let b = self.operand(BSort::Arr(iw, dw));
                        (op.into(), vec![a, b], vec![], BSort::Bv(1))
                    }
                    _ => {
                        let w = self.pick_width();
                        let a = self.operand(BSort::Bv(w));
                        let b = if self.t.chance(40) { (a.0, self.t.flag()) } else { self.operand(BSort::Bv(w)) };
                        let res = match op {
                            "sgt" | "ugt" | "sgte" | "ugte" | "slt" | "ult" | "slte" | "ulte" | "eq" | "neq" => BSort::Bv(1),
                            _ => BSort::Bv(w),
                        };
                        (op.into(), vec![a, b], vec![], res)
                    }
                }
            }
            2 => {
                let c = self.operand(BSort::Bv(1));
                let s = if self.arr.is_some() && self.t.chance(48) {
                    let (iw, dw) = self.arr.unwrap();
                    BSort::Arr(iw, dw)
                } else {
                    BSort::Bv(self.pick_width())
                };
                let a = self.operand(s);
                let b = self.operand(s);
                ("ite".into(), vec![c, a, b], vec![], s)
            }
            _ => {
                let (iw, dw) = self.arr.unwrap();
                let a = self.operand(BSort::Arr(iw, dw));
                let i = self.operand(BSort::Bv(iw));
                if self.t.flag() {
                    ("read".into(), vec![a, i], vec![], BSort::Bv(dw))
                } else {
                    let d = self.operand(BSort::Bv(dw));
                    ("write".into(), vec![a, i, d], vec![], BSort::Arr(iw, dw))
                }
            }
        };
        // cap widths created through concat/ext so that they stay in the pool of usable widths
        if let BSort::Bv(w) = res {
            if !self.widths.contains(&w) && self.widths.len() < 8 && w <= 200 {
                self.widths.push(w);
            }
        }
        let sl = self.sort_line(res);
        let name = self.maybe_name(20);
        self.push(LineKind::Op { op, args, params, lit: None }, Some(res), Some(sl), name)
    }

    fn ref_of(&mut self, s: BSort) -> (usize, bool) {
        self.operand(s)
    }
}

/// A well-formed btor2 file with `n_ops` operator lines.
pub fn gen_file(t: &mut Tape, wide: bool, max_ops: u32) -> BtorFile {
    let mut g = Gen::new(t, wide);
    let nw = 1 + g.t.below(3);
    g.widths.push(1);
    for _ in 0..nw {
        let w = if wide {
            match g.t.weighted(&[6, 2, 2, 1, 2, 1]) {
                0 => g.t.range(2, 8),
                1 => g.t.range(31, 33),
                2 => g.t.range(63, 65),
                3 => g.t.range(127, 130),
                // everything between the boundary classes, and a few multi-word widths
                4 => g.t.range(9, 126),
                _ => *g.t.pick(&[131u32, 160, 192, 200, 255, 256, 257]),
            }
        } else {
            g.t.range(2, 4)
        };
        if !g.widths.contains(&w) {
            g.widths.push(w);
        }
    }
    if g.t.chance(110) {
        let iw = g.t.range(1, 3);
        let dw = if g.t.flag() { g.widths[g.t.below(g.widths.len() as u32) as usize] } else { g.t.range(1, 4) };
        if !g.widths.contains(&iw) {
            g.widths.push(iw);
        }
        if !g.widths.contains(&dw) {
            g.widths.push(dw);
        }
        g.arr = Some((iw, dw));
    }
    if g.t.chance(64) {
        g.f.lines.push(Line { id: 0, kind: LineKind::Comment("generated by pv btorgen".into()), sort: None, sort_line: None, name: None });
    }
    // symbols
    let n_sym = 1 + g.t.below(5);
    for _ in 0..n_sym {
        let s = if g.arr.is_some() && g.t.chance(60) {
            let (iw, dw) = g.arr.unwrap();
            BSort::Arr(iw, dw)
        } else {
            BSort::Bv(g.pick_width())
        };
        let is_state = g.t.chance(150);
        g.symbol_line(s, is_state);
    }
    let n_ops = g.t.below(max_ops + 1);
    for _ in 0..n_ops {
        g.op_line();
    }
    // init / next lines for states
    let states: Vec<usize> =
        (0..g.f.lines.len()).filter(|i| matches!(g.f.lines[*i].kind, LineKind::State)).collect();
    for s in states {
        let sort = g.f.lines[s].sort.unwrap();
        let sl = g.f.lines[s].sort_line.unwrap();
        if g.t.chance(150) {
            // init; for arrays sometimes from a bit-vector (constant array)
            let expr = match sort {
                BSort::Arr(_, dw) if g.t.chance(128) => g.ref_of(BSort::Bv(dw)),
                _ => g.ref_of(sort),
            };
            let sl2 = if g.t.chance(40) { g.sort_line(sort) } else { sl };
            g.push(LineKind::Init { state: s, expr }, None, Some(sl2), None);
        }
        if g.t.chance(180) {
            let expr = if g.t.chance(30) { (s, false) } else { g.ref_of(sort) };
            g.push(LineKind::Next { state: s, expr }, None, Some(sl), None);
        }
    }
    // more ops after init/next lines (arbitrary interleaving)
    let n_ops2 = g.t.below(4);
    for _ in 0..n_ops2 {
        g.op_line();
    }
    // outputs / bads / constraints
    let n_out = g.t.below(3);
    for _ in 0..n_out {
        let w = g.pick_width();
        let e = g.ref_of(BSort::Bv(w));
        let name = g.maybe_name(128);
        g.push(LineKind::Output(e), None, None, name);
    }
    let n_bad = 1 + g.t.below(3);
    for _ in 0..n_bad {
        let e = g.ref_of(BSort::Bv(1));
        let name = g.maybe_name(64);
        g.push(LineKind::Bad(e), None, None, name);
    }
    let n_con = g.t.below(3);
    for _ in 0..n_con {
        let e = g.ref_of(BSort::Bv(1));
        let name = g.maybe_name(64);
        g.push(LineKind::Constraint(e), None, None, name);
    }
    g.f
}

/// Checks every line against the btor2 typing rules; returns the first problem.
pub fn type_check_file(f: &BtorFile) -> Result<(), String> {
    for (i, l) in f.lines.iter().enumerate() {
        let declared = l.sort_line.map(|s| f.lines[s].sort.unwrap());
        let rs = |r: &(usize, bool)| -> Result<BSort, String> {
            let s = f.lines[r.0].sort.ok_or("reference to a non-node")?;
            if r.1 && !matches!(s, BSort::Bv(_)) {
                return Err(format!("line {}: negated array reference", l.id));
            }
            Ok(s)
        };
        match &l.kind {
            LineKind::Op { op, args, params, .. } => {
                if CONSTS.contains(&op.as_str()) {
                    if !matches!(declared, Some(BSort::Bv(_))) {
                        return Err(format!("line {}: constant of array sort", l.id));
                    }
                    continue;
                }
                let a: Result<Vec<BSort>, String> = args.iter().map(rs).collect();
                let res = op_sort(op, &a?, params).map_err(|e| format!("line {}: {}", l.id, e))?;
                if Some(res) != declared {
                    return Err(format!("line {}: declared sort {:?} but operator yields {:?}", l.id, declared, res));
                }
            }
            LineKind::Init { state, expr } | LineKind::Next { state, expr } => {
                let st = f.lines[*state].sort.unwrap();
                let es = rs(expr)?;
                let is_init = matches!(l.kind, LineKind::Init { .. });
                let ok = es == st || (is_init && matches!((st, es), (BSort::Arr(_, dw), BSort::Bv(w)) if dw == w));
                if !ok || declared != Some(st) {
                    return Err(format!("line {}: init/next sort mismatch", l.id));
                }
            }
            LineKind::Output(e) | LineKind::Bad(e) | LineKind::Constraint(e) => {
                rs(e)?;
            }
            _ => {}
        }
        let _ = i;
    }
    Ok(())
}

/// One ill-sorted variant: change the declared sort of an operator line, or swap an operand for a
/// node of a different sort. Returns None when no such edit exists.
pub fn ill_sorted_variant(f: &BtorFile, t: &mut Tape) -> Option<(BtorFile, String)> {
    let ops: Vec<usize> = (0..f.lines.len())
        .filter(|i| matches!(&f.lines[*i].kind, LineKind::Op { op, .. } if !CONSTS.contains(&op.as_str())))
        .collect();
    if ops.is_empty() {
        return None;
    }
    // two different array sorts in one expression: an array operand (of ite / eq / neq / read /
    // write) replaced by a fresh state of an array sort with another index or element width
    if t.chance(40) {
        let sites: Vec<(usize, usize)> = ops
            .iter()
            .flat_map(|i| {
                let LineKind::Op { args, .. } = &f.lines[*i].kind else { return vec![] };
                args.iter()
                    .enumerate()
                    .filter(|(_, a)| matches!(f.lines[a.0].sort, Some(BSort::Arr(..))))
                    .map(|(k, _)| (*i, k))
                    .collect::<Vec<_>>()
            })
            .collect();
        if !sites.is_empty() {
            let (i, k) = sites[t.below(sites.len() as u32) as usize];
            let LineKind::Op { args, .. } = &f.lines[i].kind else { return None };
            let Some(BSort::Arr(iw, dw)) = f.lines[args[k].0].sort else { return None };
            let (niw, ndw) = match t.below(3) {
                0 => (iw + 1, dw),
                1 => (iw, dw + 1 + t.below(8)),
                _ => (iw + 1, dw + 1),
            };
            let mut g = f.clone();
            let mut id = g.lines.iter().map(|l| l.id).max().unwrap_or(0) + 1;
            let mut fresh = |kind: LineKind, sort: BSort, sort_line: Option<usize>, name: Option<String>| {
                let l = Line { id, kind, sort: Some(sort), sort_line, name };
                id += 1;
                l
            };
            // inserted right before line i: [bitvec niw, bitvec ndw, array, state]
            let l0 = fresh(LineKind::Sort(BSort::Bv(niw)), BSort::Bv(niw), None, None);
            let l1 = fresh(LineKind::Sort(BSort::Bv(ndw)), BSort::Bv(ndw), None, None);
            let text = format!("{} {}", l0.id, l1.id);
            let l2 = fresh(LineKind::Sort(BSort::Arr(niw, ndw)), BSort::Arr(niw, ndw), None, Some(text));
            let l3 = fresh(LineKind::State, BSort::Arr(niw, ndw), Some(i + 2), None);
            insert_lines(&mut g, i, vec![l0, l1, l2, l3]);
            if let LineKind::Op { args, .. } = &mut g.lines[i + 4].kind {
                args[k] = (i + 3, false);
            }
            let what = format!("line {}: array operand {} replaced by an array of sort [{}->{}]", g.lines[i + 4].id, k, niw, ndw);
            if type_check_file(&g).is_err() {
                return Some((g, what));
            }
        }
    }
    // ill-sorted init / next lines: the expression swapped for a node of a sort the state cannot take
    // (for the bit-vector init of an array state: a bit-vector that is not as wide as the elements),
    // or another declared sort on the line itself
    let links: Vec<usize> = (0..f.lines.len())
        .filter(|i| matches!(&f.lines[*i].kind, LineKind::Init { .. } | LineKind::Next { .. }))
        .collect();
    if !links.is_empty() && t.chance(64) {
        for _ in 0..4 {
            let i = links[t.below(links.len() as u32) as usize];
            let mut g = f.clone();
            let what;
            if t.chance(64) {
                let cur = g.lines[i].sort_line.map(|s| g.lines[s].sort);
                let cands: Vec<usize> = (0..i)
                    .filter(|j| matches!(g.lines[*j].kind, LineKind::Sort(_)) && Some(g.lines[*j].sort) != cur)
                    .collect();
                if cands.is_empty() {
                    continue;
                }
                g.lines[i].sort_line = Some(cands[t.below(cands.len() as u32) as usize]);
                what = format!("line {}: declared sort of an init/next line changed", g.lines[i].id);
            } else {
                let (state, is_init) = match &g.lines[i].kind {
                    LineKind::Init { state, .. } => (*state, true),
                    LineKind::Next { state, .. } => (*state, false),
                    _ => continue,
                };
                let st = g.lines[state].sort;
                // prefer, for an array state, bit-vector nodes of the wrong element width
                let mut cands: Vec<usize> = (0..i)
                    .filter(|j| {
                        g.is_node(*j)
                            && is_init
                            && matches!((st, g.lines[*j].sort), (Some(BSort::Arr(_, dw)), Some(BSort::Bv(w))) if dw != w)
                    })
                    .collect();
                if cands.is_empty() || t.chance(80) {
                    cands = (0..i).filter(|j| g.is_node(*j) && g.lines[*j].sort != st).collect();
                }
                if cands.is_empty() {
                    continue;
                }
                let j = cands[t.below(cands.len() as u32) as usize];
                match &mut g.lines[i].kind {
                    LineKind::Init { expr, .. } | LineKind::Next { expr, .. } => *expr = (j, false),
                    _ => {}
                }
                what = format!("line {}: init/next expression swapped for a node of another sort", g.lines[i].id);
            }
            if type_check_file(&g).is_err() {
                return Some((g, what));
            }
        }
    }
    for _ in 0..6 {
        let i = ops[t.below(ops.len() as u32) as usize];
        let mut g = f.clone();
        let what;
        if t.flag() {
            // different declared sort (must be declared before this line)
            let cur = g.lines[i].sort;
            let cands: Vec<usize> = (0..i)
                .filter(|j| matches!(g.lines[*j].kind, LineKind::Sort(_)) && g.lines[*j].sort != cur)
                .collect();
            if cands.is_empty() {
                continue;
            }
            let j = cands[t.below(cands.len() as u32) as usize];
            g.lines[i].sort_line = Some(j);
            what = format!("line {}: declared sort changed", g.lines[i].id);
        } else {
            let LineKind::Op { args, .. } = &g.lines[i].kind else { continue };
            if args.is_empty() {
                continue;
            }
            let k = t.below(args.len() as u32) as usize;
            let cur = g.lines[args[k].0].sort;
            let cands: Vec<usize> =
                (0..i).filter(|j| g.is_node(*j) && g.lines[*j].sort != cur).collect();
            if cands.is_empty() {
                continue;
            }
            let j = cands[t.below(cands.len() as u32) as usize];
            if let LineKind::Op { args, .. } = &mut g.lines[i].kind {
                args[k] = (j, false);
            }
            what = format!("line {}: operand {} swapped for a node of another sort", g.lines[i].id, k);
        }
        // keep the edited line's own recorded sort consistent for later lines: later lines keep
        // referring to it with its *original* sort; only this line must now be ill-sorted
        if type_check_file(&g).is_err() {
            return Some((g, what));
        }
    }
    None
}

/// Inserts lines before line index `at` and shifts every reference to a line index >= `at`.
pub fn insert_lines(f: &mut BtorFile, at: usize, new: Vec<Line>) {
    let n = new.len();
    let sh = |x: &mut usize| {
        if *x >= at {
            *x += n;
        }
    };
    for l in f.lines.iter_mut() {
        if let Some(sl) = l.sort_line.as_mut() {
            sh(sl);
        }
        match &mut l.kind {
            LineKind::Op { args, .. } => args.iter_mut().for_each(|a| sh(&mut a.0)),
            LineKind::Init { state, expr } | LineKind::Next { state, expr } => {
                sh(state);
                sh(&mut expr.0);
            }
            LineKind::Output(e) | LineKind::Bad(e) | LineKind::Constraint(e) => sh(&mut e.0),
            _ => {}
        }
    }
    for (k, l) in new.into_iter().enumerate() {
        f.lines.insert(at + k, l);
    }
}

pub fn random_value(t: &mut crate::tape::SplitMix, s: BSort) -> Val {
    match s {
        BSort::Bv(w) => Val::Bv(Bv::new(w, t.bits(w))),
        BSort::Arr(iw, dw) => {
            let mut a = Arr::constant(iw, &Bv::new(dw, t.bits(dw)));
            for _ in 0..t.below(4) {
                a = a.store(&Bv::new(iw, t.bits(iw)), &Bv::new(dw, t.bits(dw)));
            }
            Val::Arr(a)
        }
    }
}
