//! Check engine: seeded proptest driver over choice tapes, deterministic enumerations, panic capture,
//! known-findings protocol, replay files, evidence JSON, exit codes.

use proptest::collection::vec as pvec;
use proptest::prelude::*;
use proptest::test_runner::{Config, RngSeed, TestCaseError, TestError, TestRunner};
use serde_json::{Value as J, json};
use std::cell::RefCell;
use std::collections::{BTreeMap, HashSet};
use std::panic::{AssertUnwindSafe, catch_unwind};
use std::path::{Path, PathBuf};
use std::sync::atomic::{AtomicBool, Ordering};
use std::sync::{Arc, Mutex};
use std::time::Instant;

pub const DECODER_VERSION: u32 = 1;

#[derive(Clone, Debug)]
pub struct Failure {
    /// root-cause signature: component/operator/kind/parameter-class
    pub sig: String,
    pub detail: String,
}

impl Failure {
    pub fn new(sig: impl Into<String>, detail: impl Into<String>) -> Self {
        Failure { sig: sig.into(), detail: detail.into() }
    }
}

#[derive(Clone, Copy, PartialEq, Eq, Debug)]
pub enum Tier {
    Quick,
    Thorough,
}

impl Tier {
    pub fn name(&self) -> &'static str {
        match self {
            Tier::Quick => "quick",
            Tier::Thorough => "thorough",
        }
    }
}

// ---------------------------------------------------------------------------------------------
// panic capture
// ---------------------------------------------------------------------------------------------

#[derive(Clone, Debug, Default)]
pub struct PanicInfo {
    pub file: String,
    pub line: u32,
    pub msg: String,
}

thread_local! {
    static LAST_PANIC: RefCell<Option<PanicInfo>> = const { RefCell::new(None) };
    static QUIET: RefCell<bool> = const { RefCell::new(false) };
}

pub fn install_panic_hook() {
    let default = std::panic::take_hook();
    std::panic::set_hook(Box::new(move |info| {
        let (file, line) = info
            .location()
            .map(|l| (l.file().to_string(), l.line()))
            .unwrap_or_else(|| ("?".to_string(), 0));
        let msg = if let Some(s) = info.payload().downcast_ref::<&str>() {
            s.to_string()
        } else if let Some(s) = info.payload().downcast_ref::<String>() {
            s.clone()
        } else {
            "<non-string panic>".to_string()
        };
        let quiet = QUIET.with(|q| *q.borrow());
        LAST_PANIC.with(|p| *p.borrow_mut() = Some(PanicInfo { file, line, msg }));
        if !quiet {
            default(info);
        }
    }));
}

/// Run `f`, converting a panic into `Err(PanicInfo)`. Silent.
pub fn guard<T>(f: impl FnOnce() -> T) -> Result<T, PanicInfo> {
    let prev = QUIET.with(|q| std::mem::replace(&mut *q.borrow_mut(), true));
    LAST_PANIC.with(|p| *p.borrow_mut() = None);
    let r = catch_unwind(AssertUnwindSafe(f));
    QUIET.with(|q| *q.borrow_mut() = prev);
    match r {
        Ok(v) => Ok(v),
        Err(_) => Err(LAST_PANIC.with(|p| p.borrow_mut().take()).unwrap_or_default()),
    }
}

impl PanicInfo {
    /// file (path tail) + message class (digits and quoted parts removed, truncated); no line numbers
    pub fn class(&self) -> String {
        let file = self.file.rsplit("/src/").next().unwrap_or(&self.file);
        let krate = if self.file.contains("/baa-") {
            "baa"
        } else if self.file.contains("patronus-dse") {
            "patronus-dse"
        } else if self.file.contains("patronus-egraphs") {
            "patronus-egraphs"
        } else if self.file.contains("/patronus/") {
            "patronus"
        } else if self.file.contains("/verif/") || self.file.starts_with("src/") {
            "HARNESS"
        } else if self.file.contains("/rustc/") || self.file.contains("library/") {
            "std"
        } else {
            "other"
        };
        let mut m = String::new();
        let mut prev_hash = false;
        for ch in self.msg.chars().take(160) {
            if ch.is_ascii_digit() {
                if !prev_hash {
                    m.push('#');
                }
                prev_hash = true;
            } else {
                prev_hash = false;
                if ch == '\n' {
                    break;
                }
                m.push(ch);
            }
        }
        let m: String = m.chars().take(44).collect();
        format!("panic@{}:{}:{}", krate, file, m.trim())
    }
    pub fn is_harness(&self) -> bool {
        self.file.contains("/verif/") || self.file.starts_with("src/")
    }
}

// ---------------------------------------------------------------------------------------------
// known findings
// ---------------------------------------------------------------------------------------------

#[derive(Clone, Debug)]
pub struct KnownFinding {
    pub property: String,
    pub status: String,
    pub signature: String,
    pub what: String,
}

#[derive(Clone, Debug, Default)]
pub struct KnownFindings {
    pub entries: Vec<KnownFinding>,
}

pub fn verif_root() -> PathBuf {
    if let Ok(p) = std::env::var("PV_ROOT") {
        return PathBuf::from(p);
    }
    PathBuf::from("/verif")
}

impl KnownFindings {
    pub fn load() -> Self {
        let path = verif_root().join("known_findings.jsonl");
        let mut entries = vec![];
        if let Ok(text) = std::fs::read_to_string(&path) {
            for line in text.lines() {
                let line = line.trim();
                if line.is_empty() || line.starts_with('#') {
                    continue;
                }
                if let Ok(v) = serde_json::from_str::<J>(line) {
                    entries.push(KnownFinding {
                        property: v["property"].as_str().unwrap_or("").to_string(),
                        status: v["status"].as_str().unwrap_or("").to_string(),
                        signature: v["signature"].as_str().unwrap_or("").to_string(),
                        what: v["what"].as_str().unwrap_or("").to_string(),
                    });
                }
            }
        }
        KnownFindings { entries }
    }
    /// only *open* findings suppress; `fixed` entries suppress nothing
    pub fn matches(&self, property: &str, sig: &str) -> Option<&KnownFinding> {
        self.entries.iter().find(|k| {
            k.status == "open"
                && k.property == property
                && glob_match(&k.signature, sig)
        })
    }
}

/// `*` in a listed signature stands for any (possibly empty) run of characters.
pub fn glob_match(pattern: &str, text: &str) -> bool {
    if !pattern.contains('*') {
        return pattern == text;
    }
    let parts: Vec<&str> = pattern.split('*').collect();
    let mut rest = text;
    for (i, part) in parts.iter().enumerate() {
        if i == 0 {
            if !rest.starts_with(part) {
                return false;
            }
            rest = &rest[part.len()..];
        } else if i == parts.len() - 1 {
            return rest.ends_with(part);
        } else {
            match rest.find(part) {
                Some(p) => rest = &rest[p + part.len()..],
                None => return false,
            }
        }
    }
    true
}

// ---------------------------------------------------------------------------------------------
// recorder / aggregated statistics
// ---------------------------------------------------------------------------------------------

#[derive(Default)]
pub struct Recorder {
    pub evaluations: u64,
    pub nontrivial: HashSet<u64>,
    pub labels: BTreeMap<String, u64>,
    pub samples: Vec<String>,
    pub max_samples: usize,
    pub known_hits: BTreeMap<String, u64>,
    pub excluded: BTreeMap<String, u64>,
    /// set while proptest is shrinking: nothing is counted
    pub frozen: bool,
    /// discovery mode (PV_COLLECT=1, never used by registered checks): signature -> first example
    pub collected: BTreeMap<String, (u64, String)>,
    pub known: Option<Arc<KnownFindings>>,
    /// wall-clock time of the slowest single case (milliseconds)
    pub slowest_case_ms: u64,
}

impl Recorder {
    pub fn new() -> Self {
        // the findings file is read once per process (it is never written at run time)
        static SHARED: std::sync::OnceLock<Arc<KnownFindings>> = std::sync::OnceLock::new();
        let known = SHARED.get_or_init(|| Arc::new(KnownFindings::load())).clone();
        Recorder { max_samples: 6, known: Some(known), ..Default::default() }
    }
    pub fn eval(&mut self) {
        if !self.frozen {
            self.evaluations += 1;
        }
    }
    /// In-case tolerance of *listed* findings so that the search continues behind them: returns
    /// true (and counts the hit) iff the failure matches an open known finding of this property.
    pub fn tolerate(&mut self, prop: &str, f: &Failure) -> bool {
        let Some(k) = self.known.clone() else { return false };
        if let Some(e) = k.matches(prop, &f.sig) {
            if !self.frozen {
                *self.known_hits.entry(e.signature.clone()).or_insert(0) += 1;
            }
            true
        } else if collect_mode() {
            if !self.frozen {
                let e = self.collected.entry(f.sig.clone()).or_insert((0, f.detail.clone()));
                e.0 += 1;
            }
            true
        } else {
            false
        }
    }
    pub fn evals(&mut self, n: u64) {
        if !self.frozen {
            self.evaluations += n;
        }
    }
    pub fn nontrivial(&mut self, hash: u64) {
        if !self.frozen {
            self.nontrivial.insert(hash);
        }
    }
    pub fn label(&mut self, l: &str) {
        if !self.frozen {
            *self.labels.entry(l.to_string()).or_insert(0) += 1;
        }
    }
    pub fn label_n(&mut self, l: &str, n: u64) {
        if !self.frozen {
            *self.labels.entry(l.to_string()).or_insert(0) += n;
        }
    }
    pub fn exclude(&mut self, why: &str) {
        if !self.frozen {
            *self.excluded.entry(why.to_string()).or_insert(0) += 1;
        }
    }
    pub fn want_sample(&self) -> bool {
        !self.frozen && self.samples.len() < self.max_samples
    }
    pub fn sample(&mut self, s: String) {
        if self.want_sample() {
            self.samples.push(s);
        }
    }
    pub fn merge(&mut self, o: Recorder) {
        self.evaluations += o.evaluations;
        self.nontrivial.extend(o.nontrivial);
        for (k, v) in o.labels {
            *self.labels.entry(k).or_insert(0) += v;
        }
        for (k, v) in o.known_hits {
            *self.known_hits.entry(k).or_insert(0) += v;
        }
        for (k, v) in o.excluded {
            *self.excluded.entry(k).or_insert(0) += v;
        }
        for s in o.samples {
            if self.samples.len() < 12 {
                self.samples.push(s);
            }
        }
        for (k, (n, ex)) in o.collected {
            let e = self.collected.entry(k).or_insert((0, ex));
            e.0 += n;
        }
        self.slowest_case_ms = self.slowest_case_ms.max(o.slowest_case_ms);
    }
}

// ---------------------------------------------------------------------------------------------
// property definition
// ---------------------------------------------------------------------------------------------

pub struct Budget {
    /// number of tape cases in total (spread over workers)
    pub cases: u64,
    pub max_tape: usize,
}

pub trait Prop: Sync + Send {
    fn id(&self) -> &'static str;
    fn level(&self) -> &'static str {
        "exploration"
    }
    fn rule(&self) -> String;
    fn assumptions(&self) -> Vec<String> {
        vec![]
    }
    fn budget(&self, tier: Tier) -> Budget;
    /// judge one tape-decoded case
    fn run_tape(&self, tape: &[u8], tier: Tier, rec: &mut Recorder) -> Result<(), Failure>;
    /// judge raw bytes (byte-level fuzz targets); default: not supported
    fn run_bytes(&self, _data: &[u8], _rec: &mut Recorder) -> Result<(), Failure> {
        Err(Failure::new("harness/run-bytes-unsupported", "this property has no byte-level entry"))
    }
    /// cargo-fuzz target of this property, if any: ("tape" | "c18_bytes" | "c14_bytes")
    fn fuzz_target(&self) -> Option<&'static str> {
        None
    }
    /// number of deterministic (enumerated) work items; each is judged by `run_item`
    fn items(&self, _tier: Tier) -> u64 {
        0
    }
    fn run_item(&self, _idx: u64, _tier: Tier, _rec: &mut Recorder) -> Result<(), Failure> {
        Ok(())
    }
    fn exhaustive_note(&self) -> Option<String> {
        None
    }
    /// optional once-per-run setup (e.g. installing the solver shim); Err = harness trouble (exit 2)
    fn setup(&self, _tier: Tier) -> Result<(), String> {
        Ok(())
    }
    /// campaign-level watchdog per case in seconds (expiry = exit 2, inconclusive)
    fn case_time_limit(&self) -> u64 {
        120
    }
    /// judge every case in a child process (`pvcheck --worker`): private environment, killable
    fn isolated(&self) -> bool {
        false
    }
    /// whether exceeding `case_time_limit` in an isolated case is a property failure (the
    /// statement itself is about bounded time) instead of an inconclusive harness-level event
    fn timeout_is_failure(&self) -> bool {
        false
    }
    /// signature used when an isolated case of a `timeout_is_failure` property is killed
    fn timeout_signature(&self, _payload: &Payload, _tier: Tier) -> String {
        "hang/isolated-case-timeout".into()
    }
    /// threads to use (solver-backed properties may want fewer/more)
    fn threads(&self) -> usize {
        default_threads()
    }
}

pub fn default_threads() -> usize {
    std::env::var("PV_THREADS").ok().and_then(|s| s.parse().ok()).unwrap_or_else(|| {
        std::thread::available_parallelism().map(|n| n.get()).unwrap_or(8).min(16)
    })
}

pub fn verif_seed() -> u64 {
    std::env::var("VERIF_SEED").ok().and_then(|s| s.parse::<i64>().ok()).map(|v| v as u64).unwrap_or(1)
}

fn seed_bytes(seed: u64, worker: u64, prop: &str) -> [u8; 32] {
    let mut out = [0u8; 32];
    let mut sm = crate::tape::SplitMix(
        seed ^ worker.wrapping_mul(0x9E3779B97F4A7C15) ^ crate::tape::hash_bytes(prop.as_bytes()),
    );
    for chunk in out.chunks_mut(8) {
        chunk.copy_from_slice(&sm.next().to_le_bytes());
    }
    out
}

pub enum Payload {
    Tape(Vec<u8>),
    Item(u64),
    /// raw bytes for the byte-level fuzz targets (C18 btor2 text, C14 SMT-LIB text)
    Bytes(Vec<u8>),
}

pub struct Found {
    pub failure: Failure,
    pub payload: Payload,
}

fn hex(data: &[u8]) -> String {
    let mut s = String::with_capacity(data.len() * 2);
    for b in data {
        s.push_str(&format!("{:02x}", b));
    }
    s
}

fn unhex(s: &str) -> Vec<u8> {
    let s = s.trim();
    (0..s.len() / 2).filter_map(|i| u8::from_str_radix(&s[2 * i..2 * i + 2], 16).ok()).collect()
}

pub fn write_replay(prop: &str, tier: Tier, found: &Found) -> PathBuf {
    let dir = verif_root().join("replays");
    let _ = std::fs::create_dir_all(&dir);
    let (kind, body) = match &found.payload {
        Payload::Tape(t) => ("tape", hex(t)),
        Payload::Item(i) => ("item", i.to_string()),
        Payload::Bytes(b) => ("bytes", hex(b)),
    };
    let h = crate::tape::hash_bytes(format!("{}{}{}", prop, kind, body).as_bytes());
    let path = dir.join(format!("{}-{:016x}.replay", prop, h));
    let mut text = String::new();
    text.push_str(&format!(
        "# property={} tier={} decoder={} seed={}\n",
        prop,
        tier.name(),
        DECODER_VERSION,
        verif_seed()
    ));
    text.push_str(&format!("# signature={}\n", found.failure.sig));
    for l in found.failure.detail.lines() {
        text.push_str(&format!("# {}\n", l));
    }
    text.push_str(&format!("property: {}\ntier: {}\n{}: {}\n", prop, tier.name(), kind, body));
    let _ = std::fs::write(&path, text);
    path
}

pub struct ReplayFile {
    pub property: String,
    pub tier: Tier,
    pub payload: Payload,
}

pub fn read_replay(path: &Path) -> Result<ReplayFile, String> {
    let text = std::fs::read_to_string(path).map_err(|e| format!("{}: {}", path.display(), e))?;
    let mut property = None;
    let mut tier = Tier::Quick;
    let mut payload = None;
    for l in text.lines() {
        if l.starts_with('#') {
            continue;
        }
        if let Some(r) = l.strip_prefix("property:") {
            property = Some(r.trim().to_string());
        } else if let Some(r) = l.strip_prefix("tier:") {
            tier = if r.trim() == "thorough" { Tier::Thorough } else { Tier::Quick };
        } else if let Some(r) = l.strip_prefix("tape:") {
            payload = Some(Payload::Tape(unhex(r)));
        } else if let Some(r) = l.strip_prefix("bytes:") {
            payload = Some(Payload::Bytes(unhex(r)));
        } else if let Some(r) = l.strip_prefix("item:") {
            payload = Some(Payload::Item(r.trim().parse().map_err(|_| "bad item")?));
        }
    }
    Ok(ReplayFile {
        property: property.ok_or("no property line")?,
        tier,
        payload: payload.ok_or("no payload line")?,
    })
}

/// Judge one payload, mapping panics inside the property code to failures.
pub fn judge(prop: &dyn Prop, payload: &Payload, tier: Tier, rec: &mut Recorder) -> Result<(), Failure> {
    let r = guard(|| match payload {
        Payload::Tape(t) => prop.run_tape(t, tier, rec),
        Payload::Item(i) => prop.run_item(*i, tier, rec),
        Payload::Bytes(b) => prop.run_bytes(b, rec),
    });
    let r = match r {
        Ok(r) => r,
        Err(p) => {
            // a panic that escaped the property's own guards: either harness bug or patronus panic
            Err(Failure::new(
                format!("{}/unguarded-{}", prop.id(), p.class()),
                format!("panic at {}:{}: {}", p.file, p.line, p.msg),
            ))
        }
    };
    if collect_mode() {
        if let Err(f) = r {
            if !rec.frozen {
                let e = rec.collected.entry(f.sig.clone()).or_insert((0, f.detail.clone()));
                e.0 += 1;
            }
            return Ok(());
        }
    }
    r
}

/// judges in-process or through the worker's child process
pub struct Judger {
    prop: Arc<dyn Prop>,
    tier: Tier,
    iso: Option<crate::isolate::Isolated>,
}

impl Judger {
    pub fn new(prop: Arc<dyn Prop>, tier: Tier) -> Self {
        let iso = if prop.isolated() { Some(crate::isolate::Isolated::new(prop.id(), tier)) } else { None };
        Judger { prop, tier, iso }
    }
    pub fn judge(&mut self, payload: &Payload, rec: &mut Recorder) -> Result<(), Failure> {
        let started = Instant::now();
        let r = self.judge_inner(payload, rec);
        if !rec.frozen {
            rec.slowest_case_ms = rec.slowest_case_ms.max(started.elapsed().as_millis() as u64);
        }
        r
    }
    fn judge_inner(&mut self, payload: &Payload, rec: &mut Recorder) -> Result<(), Failure> {
        match self.iso.as_mut() {
            None => judge(self.prop.as_ref(), payload, self.tier, rec),
            Some(iso) => {
                let mut r = iso.judge(payload, rec, self.prop.case_time_limit());
                if let Err(f) = r.as_mut() {
                    if f.sig == "hang/isolated-case-timeout" && self.prop.timeout_is_failure() {
                        f.sig = self.prop.timeout_signature(payload, self.tier);
                    }
                }
                // collect mode is applied inside the child; timeouts and crashes arrive here
                if collect_mode() {
                    if let Err(f) = r {
                        if !rec.frozen {
                            let e = rec.collected.entry(f.sig.clone()).or_insert((0, f.detail.clone()));
                            e.0 += 1;
                        }
                        return Ok(());
                    }
                }
                r
            }
        }
    }
}

pub fn collect_mode() -> bool {
    std::env::var("PV_COLLECT").is_ok()
}

/// per-worker heartbeat: (start of the current case, its payload)
type Heartbeat = Arc<Mutex<Option<(Instant, String)>>>;

/// Campaign-level watchdog: a case that runs longer than `limit` seconds is reported as harness
/// trouble (exit 2) together with a replay file - never as a violation (only C13/C15, whose statement
/// is termination / bounded time, convert a timeout into a failure themselves).
fn spawn_watchdog(prop_id: &'static str, tier: Tier, beats: Vec<Heartbeat>, limit: u64) {
    std::thread::spawn(move || {
        loop {
            std::thread::sleep(std::time::Duration::from_millis(500));
            for b in beats.iter() {
                let g = b.lock().unwrap();
                if let Some((start, payload)) = g.as_ref() {
                    if start.elapsed().as_secs() >= limit {
                        let dir = verif_root().join("replays");
                        let _ = std::fs::create_dir_all(&dir);
                        let h = crate::tape::hash_bytes(payload.as_bytes());
                        let path = dir.join(format!("{}-watchdog-{:016x}.replay", prop_id, h));
                        let text = format!(
                            "# property={} tier={} decoder={}\n# signature=hang/watchdog (case ran longer than {} s)\nproperty: {}\ntier: {}\n{}\n",
                            prop_id, tier.name(), DECODER_VERSION, limit, prop_id, tier.name(), payload
                        );
                        let _ = std::fs::write(&path, text);
                        println!(
                            "WATCHDOG property={} a single case exceeded {} s; inconclusive, replay={}",
                            prop_id, limit, path.display()
                        );
                        eprintln!("HARNESS-ERROR: watchdog expired (exit 2, not a violation)");
                        std::process::exit(2);
                    }
                }
            }
        }
    });
}

fn beat_set(b: &Heartbeat, payload: &Payload) {
    let text = match payload {
        Payload::Tape(t) => format!("tape: {}", hex(t)),
        Payload::Item(i) => format!("item: {}", i),
        Payload::Bytes(x) => format!("bytes: {}", hex(x)),
    };
    *b.lock().unwrap() = Some((Instant::now(), text));
}

fn beat_clear(b: &Heartbeat) {
    *b.lock().unwrap() = None;
}

pub struct RunOutcome {
    pub fuzz: Option<FuzzStats>,
    pub started: Instant,
    pub rec: Recorder,
    pub violations: Vec<(Found, PathBuf)>,
    pub harness_errors: Vec<String>,
    pub wall_s: f64,
}

pub fn run_check(prop: Arc<dyn Prop>, tier: Tier) -> RunOutcome {
    let start = Instant::now();
    let known = Arc::new(KnownFindings::load());
    let seed = verif_seed();
    let budget = prop.budget(tier);
    let scale: f64 = std::env::var("PV_SCALE").ok().and_then(|s| s.parse().ok()).unwrap_or(1.0);
    let total_cases = ((budget.cases as f64) * scale).ceil() as u64;
    let threads = prop.threads().max(1);
    let stop = Arc::new(AtomicBool::new(false));
    let founds: Arc<Mutex<Vec<Found>>> = Arc::new(Mutex::new(vec![]));
    let agg: Arc<Mutex<Recorder>> = Arc::new(Mutex::new(Recorder::new()));
    let mut harness_errors = vec![];
    let beats: Vec<Heartbeat> = (0..threads).map(|_| Arc::new(Mutex::new(None))).collect();
    let wd_limit = if prop.isolated() { prop.case_time_limit() * 3 + 60 } else { prop.case_time_limit() };
    spawn_watchdog(prop.id(), tier, beats.clone(), wd_limit);

    if let Err(e) = prop.setup(tier) {
        harness_errors.push(format!("setup: {}", e));
        return RunOutcome {
            fuzz: None,
            started: start,
            rec: Recorder::new(),
            violations: vec![],
            harness_errors,
            wall_s: start.elapsed().as_secs_f64(),
        };
    }

    // 0. regression corpus
    let reg_dir = verif_root().join("corpus").join("regressions").join(prop.id());
    if let Ok(rd) = std::fs::read_dir(&reg_dir) {
        let mut files: Vec<PathBuf> = rd.filter_map(|e| e.ok().map(|e| e.path())).collect();
        files.sort();
        let mut rec = Recorder::new();
        let mut jd = Judger::new(prop.clone(), tier);
        for f in files {
            if let Ok(rf) = read_replay(&f) {
                rec.label("regression-replays");
                if let Err(fail) = jd.judge(&rf.payload, &mut rec) {
                    if let Some(k) = known.matches(prop.id(), &fail.sig) {
                        *rec.known_hits.entry(k.signature.clone()).or_insert(0) += 1;
                    } else {
                        founds.lock().unwrap().push(Found { failure: fail, payload: rf.payload });
                    }
                }
            }
        }
        agg.lock().unwrap().merge(rec);
    }

    // 1. deterministic items, split over threads
    let n_items = prop.items(tier);
    if n_items > 0 {
        let next = Arc::new(std::sync::atomic::AtomicU64::new(0));
        let mut handles = vec![];
        for w in 0..threads {
            let prop = prop.clone();
            let known = known.clone();
            let founds = founds.clone();
            let agg = agg.clone();
            let next = next.clone();
            let beat = beats[w].clone();
            handles.push(std::thread::spawn(move || {
                let mut rec = Recorder::new();
                let mut jd = Judger::new(prop.clone(), tier);
                let mut local_sigs: HashSet<String> = HashSet::new();
                loop {
                    let i = next.fetch_add(1, Ordering::Relaxed);
                    if i >= n_items {
                        break;
                    }
                    let payload = Payload::Item(i);
                    beat_set(&beat, &payload);
                    let res = jd.judge(&payload, &mut rec);
                    beat_clear(&beat);
                    if let Err(fail) = res {
                        if let Some(k) = known.matches(prop.id(), &fail.sig) {
                            *rec.known_hits.entry(k.signature.clone()).or_insert(0) += 1;
                        } else if local_sigs.insert(fail.sig.clone()) {
                            founds.lock().unwrap().push(Found { failure: fail, payload });
                        }
                    }
                }
                agg.lock().unwrap().merge(rec);
            }));
        }
        for h in handles {
            let _ = h.join();
        }
    }

    // 2. proptest over tapes
    if total_cases > 0 {
        let per = total_cases.div_ceil(threads as u64);
        let mut handles = vec![];
        for w in 0..threads {
            let prop = prop.clone();
            let known = known.clone();
            let founds = founds.clone();
            let agg = agg.clone();
            let stop = stop.clone();
            let max_tape = budget.max_tape;
            let beat = beats[w].clone();
            handles.push(std::thread::spawn(move || {
                let rec = RefCell::new(Recorder::new());
                let jd = RefCell::new(Judger::new(prop.clone(), tier));
                let cfg = Config {
                    cases: per as u32,
                    failure_persistence: None,
                    rng_seed: RngSeed::Fixed(0), // replaced below via new_with_rng
                    max_shrink_iters: if prop.isolated() { 120 } else { 1500 },
                    max_global_rejects: 1_000_000,
                    ..Config::default()
                };
                let rng = proptest::test_runner::TestRng::from_seed(
                    proptest::test_runner::RngAlgorithm::ChaCha,
                    &seed_bytes(seed, w as u64, prop.id()),
                );
                let mut runner = TestRunner::new_with_rng(cfg, rng);
                let last_fail: RefCell<Option<Failure>> = RefCell::new(None);
                let failed = std::cell::Cell::new(false);
                let no_shrink = std::cell::Cell::new(false);
                let min_tape = max_tape / 8;
                let result = runner.run(&pvec(any::<u8>(), min_tape..=max_tape), |tape| {
                    if stop.load(Ordering::Relaxed) && !failed.get() {
                        return Ok(()); // another worker found a violation: finish fast
                    }
                    if no_shrink.get() {
                        return Ok(()); // hangs are not shrunk (every attempt would cost the watchdog time)
                    }
                    let mut r = rec.borrow_mut();
                    r.frozen = failed.get();
                    let payload = Payload::Tape(tape);
                    beat_set(&beat, &payload);
                    let res = jd.borrow_mut().judge(&payload, &mut r);
                    beat_clear(&beat);
                    match res {
                        Ok(()) => Ok(()),
                        Err(fail) => {
                            if let Some(k) = known.matches(prop.id(), &fail.sig) {
                                if !r.frozen {
                                    *r.known_hits.entry(k.signature.clone()).or_insert(0) += 1;
                                }
                                Ok(())
                            } else {
                                failed.set(true);
                                stop.store(true, Ordering::Relaxed);
                                if fail.sig.starts_with("hang/") {
                                    no_shrink.set(true);
                                }
                                let sig = fail.sig.clone();
                                *last_fail.borrow_mut() = Some(fail);
                                Err(TestCaseError::fail(sig))
                            }
                        }
                    }
                });
                if let Err(TestError::Fail(_, tape)) = result {
                    // re-judge the minimal tape to obtain its own signature/detail
                    let mut scratch = Recorder::new();
                    scratch.frozen = true;
                    let payload = Payload::Tape(tape);
                    let fail = if no_shrink.get() {
                        last_fail.borrow().clone().unwrap()
                    } else {
                        match jd.borrow_mut().judge(&payload, &mut scratch) {
                            Err(f) => f,
                            Ok(()) => last_fail.borrow().clone().unwrap_or_else(|| {
                                Failure::new("harness/flaky", "minimal case passed on re-run")
                            }),
                        }
                    };
                    founds.lock().unwrap().push(Found { failure: fail, payload });
                }
                let mut r = rec.into_inner();
                r.frozen = false;
                agg.lock().unwrap().merge(r);
            }));
        }
        for h in handles {
            let _ = h.join();
        }
    }

    let mut rec = std::mem::take(&mut *agg.lock().unwrap());
    rec.frozen = false;
    let mut violations = vec![];
    let mut seen_sigs: HashSet<String> = HashSet::new();
    let found_list = std::mem::take(&mut *founds.lock().unwrap());
    for f in found_list {
        if f.failure.sig.starts_with("hang/isolated-case-timeout") && !prop.timeout_is_failure() {
            let path = write_replay(prop.id(), tier, &f);
            println!(
                "WATCHDOG property={} a single case exceeded its time limit; inconclusive, replay={}",
                prop.id(),
                path.display()
            );
            harness_errors.push(format!("case time limit exceeded (inconclusive): {}", path.display()));
            continue;
        }
        if f.failure.sig.starts_with("harness/") || f.failure.sig.contains("panic@HARNESS") {
            harness_errors.push(format!("{}: {}", f.failure.sig, f.failure.detail));
            let _ = write_replay(prop.id(), tier, &f);
            continue;
        }
        if known.matches(prop.id(), &f.failure.sig).is_some() {
            *rec.known_hits.entry(f.failure.sig.clone()).or_insert(0) += 1;
            continue;
        }
        if seen_sigs.insert(f.failure.sig.clone()) {
            let path = write_replay(prop.id(), tier, &f);
            violations.push((f, path));
        }
    }
    RunOutcome { fuzz: None, started: start, rec, violations, harness_errors, wall_s: start.elapsed().as_secs_f64() }
}

#[derive(Default, Clone, Debug)]
pub struct FuzzStats {
    pub target: String,
    pub secs: u64,
    pub execs: u64,
    pub corpus_files: u64,
    pub artifacts: u64,
    pub new_violations: u64,
    pub known_hits: u64,
    pub note: String,
}

/// Coverage-guided stage of the thorough tier: runs the property's cargo-fuzz target (same decoders
/// and in-target oracle) for PV_FUZZ_SECS seconds, then re-judges every artifact in-process.
pub fn fuzz_stage(prop: Arc<dyn Prop>, tier: Tier, out: &mut RunOutcome) -> Option<FuzzStats> {
    let target = prop.fuzz_target()?;
    let secs: u64 = std::env::var("PV_FUZZ_SECS").ok().and_then(|s| s.parse().ok()).unwrap_or(120);
    if secs == 0 {
        return None;
    }
    let root = verif_root();
    let bin = std::env::var("PV_FUZZ_BIN_DIR")
        .map(PathBuf::from)
        .unwrap_or_else(|_| root.join("fuzz/target/x86_64-unknown-linux-gnu/release"))
        .join(target);
    let mut st = FuzzStats { target: target.to_string(), secs, ..Default::default() };
    if !bin.exists() {
        st.note = format!("fuzz binary {} not built; stage skipped", bin.display());
        return Some(st);
    }
    let work = root.join("fuzz/work").join(format!("{}-{}", prop.id(), target));
    let arts = root.join("fuzz/artifacts").join(format!("{}-{}", prop.id(), target));
    let _ = std::fs::remove_dir_all(&arts);
    let _ = std::fs::create_dir_all(&work);
    let _ = std::fs::create_dir_all(&arts);
    let seeds = if target == "tape" {
        // libFuzzer grows inputs slowly from an empty corpus; start from full-length random tapes
        let d = root.join("fuzz/work").join(format!("{}-{}-seeds", prop.id(), target));
        let _ = std::fs::remove_dir_all(&d);
        let _ = std::fs::create_dir_all(&d);
        let mut g = crate::tape::SplitMix(verif_seed() ^ 0xF022);
        let len = prop.budget(tier).max_tape;
        for k in 0..64 {
            let l = if k % 4 == 0 { len } else { (len / 8).max(8) + (g.next() as usize % len.max(1)) * 7 / 8 };
            let bytes: Vec<u8> = (0..l).map(|_| g.next() as u8).collect();
            let _ = std::fs::write(d.join(format!("seed{:02}", k)), bytes);
        }
        d
    } else {
        let d = root.join("corpus").join(target);
        let _ = std::fs::create_dir_all(&d);
        d
    };
    let mut cmd = std::process::Command::new(&bin);
    // the targets must not redirect fd 2: libFuzzer's fork mode reads each job's statistics from it
    cmd.env("PV_FUZZ_PROP", prop.id()).env("PV_ROOT", &root).env("PV_KEEP_STDERR", "1");
    cmd.arg(format!("-artifact_prefix={}/", arts.display()))
        .arg(format!("-max_total_time={}", secs))
        .arg(format!("-seed={}", verif_seed().max(1)))
        .arg("-len_control=0")
        .arg(format!("-max_len={}", prop.budget(tier).max_tape.max(512)))
        .arg(format!("-fork={}", (default_threads() / 2).max(1)))
        .arg("-ignore_crashes=1")
        .arg("-print_final_stats=1")
        .arg(&work)
        .arg(&seeds);
    if target == "c18_bytes" {
        let inputs = std::env::var("PATRONUS_SRC").unwrap_or("/repo".into());
        for d in ["unittest", "chiseltest", "verilog_tests"] {
            let p = std::path::Path::new(&inputs).join("inputs").join(d);
            if p.exists() {
                cmd.arg(p);
            }
        }
    }
    let output = cmd.stdout(std::process::Stdio::piped()).stderr(std::process::Stdio::piped()).output();
    match output {
        Err(e) => {
            st.note = format!("could not run the fuzz binary: {}", e);
            return Some(st);
        }
        Ok(o) => {
            let text = format!("{}{}", String::from_utf8_lossy(&o.stdout), String::from_utf8_lossy(&o.stderr));
            for l in text.lines() {
                if let Some(r) = l.strip_prefix("stat::number_of_executed_units:") {
                    st.execs += r.trim().parse::<u64>().unwrap_or(0);
                }
                // fork mode prints "#N: cov: .. ft: .. corp: .. exec/s .."
                if l.starts_with('#') && l.contains("exec/s") {
                    if let Some(n) = l[1..].split(':').next().and_then(|x| x.trim().parse::<u64>().ok()) {
                        st.execs = st.execs.max(n);
                    }
                }
            }
        }
    }
    st.corpus_files = std::fs::read_dir(&work).map(|d| d.count() as u64).unwrap_or(0);
    // re-judge artifacts
    let known = KnownFindings::load();
    let mut seen: HashSet<String> = out.violations.iter().map(|v| v.0.failure.sig.clone()).collect();
    if let Ok(rd) = std::fs::read_dir(&arts) {
        let mut files: Vec<_> = rd.filter_map(|e| e.ok().map(|e| e.path())).collect();
        files.sort();
        for f in files {
            let Ok(data) = std::fs::read(&f) else { continue };
            st.artifacts += 1;
            let payload = if target == "tape" { Payload::Tape(data) } else { Payload::Bytes(data) };
            let mut rec = Recorder::new();
            rec.frozen = true;
            if let Err(fail) = judge(prop.as_ref(), &payload, tier, &mut rec) {
                if known.matches(prop.id(), &fail.sig).is_some() {
                    st.known_hits += 1;
                } else if seen.insert(fail.sig.clone()) {
                    st.new_violations += 1;
                    let found = Found { failure: fail, payload };
                    let path = write_replay(prop.id(), tier, &found);
                    out.violations.push((found, path));
                }
            }
        }
    }
    out.rec.evaluations += st.execs;
    Some(st)
}

pub fn write_evidence(prop: &dyn Prop, tier: Tier, out: &RunOutcome) {
    let dir = verif_root().join("evidence");
    let _ = std::fs::create_dir_all(&dir);
    let rec = &out.rec;
    let mut coverage = serde_json::Map::new();
    coverage.insert("evaluations".into(), json!(rec.evaluations));
    coverage.insert("distinct_nontrivial".into(), json!(rec.nontrivial.len()));
    coverage.insert("rule".into(), json!(prop.rule()));
    let samples: Vec<J> = if rec.samples.is_empty() {
        vec![json!("(no sample recorded)")]
    } else {
        rec.samples.iter().map(|s| json!(s)).collect()
    };
    coverage.insert("samples".into(), J::Array(samples));
    coverage.insert("classes".into(), json!(rec.labels));
    coverage.insert("known_findings_hit".into(), json!(rec.known_hits));
    coverage.insert("excluded_by_construction".into(), json!(rec.excluded));
    if let Some(n) = prop.exhaustive_note() {
        coverage.insert("exhaustive_part".into(), json!(n));
    }
    coverage.insert("exhaustive".into(), json!(false));
    coverage.insert("slowest_case_s".into(), json!(rec.slowest_case_ms as f64 / 1000.0));
    if let Some(f) = &out.fuzz {
        coverage.insert(
            "coverage_guided_stage".into(),
            json!({"engine": "libFuzzer (cargo-fuzz)", "target": f.target, "seconds": f.secs, "executions": f.execs,
                   "corpus_files": f.corpus_files, "artifacts": f.artifacts, "artifacts_matching_listed_findings": f.known_hits,
                   "new_violations": f.new_violations, "note": f.note}),
        );
    }
    let v = json!({
        "property_id": prop.id(),
        "tier": tier.name(),
        "seed": verif_seed() as i64,
        "level": prop.level(),
        "coverage": J::Object(coverage),
        "assumptions": prop.assumptions(),
        "wall_s": out.wall_s,
        "violations": out.violations.len(),
        "harness_errors": out.harness_errors,
    });
    let path = dir.join(format!("{}.json", prop.id()));
    let _ = std::fs::write(&path, serde_json::to_string_pretty(&v).unwrap());
}

/// Runs a check end to end, prints the interface lines, returns the exit code.
pub fn check_main(prop: Arc<dyn Prop>, tier: Tier) -> i32 {
    let mut out = run_check(prop.clone(), tier);
    if tier == Tier::Thorough && !prop.isolated() {
        if let Some(st) = fuzz_stage(prop.clone(), tier, &mut out) {
            println!(
                "{} fuzz stage: target={} secs={} execs={} corpus={} artifacts={} (listed findings {}) new violations={} {}",
                prop.id(), st.target, st.secs, st.execs, st.corpus_files, st.artifacts, st.known_hits, st.new_violations, st.note
            );
            out.fuzz = Some(st);
        }
    } else if tier == Tier::Thorough && prop.fuzz_target().is_some() {
        // isolated properties only have byte-level targets, which do not need the shim
        if let Some(st) = fuzz_stage(prop.clone(), tier, &mut out) {
            println!(
                "{} fuzz stage: target={} secs={} execs={} corpus={} artifacts={} (listed findings {}) new violations={} {}",
                prop.id(), st.target, st.secs, st.execs, st.corpus_files, st.artifacts, st.known_hits, st.new_violations, st.note
            );
            out.fuzz = Some(st);
        }
    }
    out.wall_s = out.started.elapsed().as_secs_f64();
    write_evidence(prop.as_ref(), tier, &out);
    let known = KnownFindings::load();
    // one line per listed open finding of this property, with the number of cases of this run that hit it
    for k in known.entries.iter().filter(|k| k.status == "open" && k.property == prop.id()) {
        let n = out.rec.known_hits.get(&k.signature).copied().unwrap_or(0);
        println!("KNOWN-FINDING: property={} {} [{}] (hit {} times in this run)", prop.id(), k.what, k.signature, n);
    }
    for (sig, (n, ex)) in out.rec.collected.iter() {
        println!("COLLECTED x{} {}", n, sig);
        for l in ex.lines().take(3) {
            println!("      {}", l);
        }
    }
    println!(
        "{} {}: evaluations={} distinct_nontrivial={} violations={} wall={:.1}s",
        prop.id(),
        tier.name(),
        out.rec.evaluations,
        out.rec.nontrivial.len(),
        out.violations.len(),
        out.wall_s
    );
    for (f, path) in out.violations.iter() {
        println!("  signature: {}", f.failure.sig);
        for l in f.failure.detail.lines().take(12) {
            println!("    {}", l);
        }
        println!("VIOLATION property={} replay={}", prop.id(), path.display());
    }
    if !out.harness_errors.is_empty() {
        for e in out.harness_errors.iter() {
            println!("HARNESS-ERROR: {}", e);
        }
        if out.violations.is_empty() {
            return 2;
        }
    }
    if out.violations.is_empty() { 0 } else { 1 }
}

pub fn replay_main(props: &[Arc<dyn Prop>], path: &Path) -> i32 {
    let rf = match read_replay(path) {
        Ok(r) => r,
        Err(e) => {
            eprintln!("cannot read replay: {}", e);
            return 2;
        }
    };
    let Some(prop) = props.iter().find(|p| p.id() == rf.property) else {
        eprintln!("unknown property {}", rf.property);
        return 2;
    };
    if let Err(e) = prop.setup(rf.tier) {
        eprintln!("HARNESS-ERROR: setup: {}", e);
        return 2;
    }
    let known = KnownFindings::load();
    let mut rec = Recorder::new();
    let mut jd = Judger::new(prop.clone(), rf.tier);
    match jd.judge(&rf.payload, &mut rec) {
        Ok(()) => {
            println!("replay {}: property {} holds on this input", path.display(), prop.id());
            for s in rec.samples.iter().take(1) {
                println!("  case: {}", s);
            }
            0
        }
        Err(f) => {
            println!("  signature: {}", f.sig);
            for l in f.detail.lines() {
                println!("    {}", l);
            }
            if let Some(k) = known.matches(prop.id(), &f.sig) {
                println!("KNOWN-FINDING: property={} {} [{}]", prop.id(), k.what, k.signature);
                0
            } else {
                println!("VIOLATION property={} replay={}", prop.id(), path.display());
                1
            }
        }
    }
}
