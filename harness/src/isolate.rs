//! Process isolation for solver-backed properties: every worker thread of the engine owns one
//! `pvcheck --worker <id> <tier>` child process that judges one case at a time. This gives
//!  * a private process environment per worker (the reference solver shim is configured through
//!    REFSOLVER_* variables that patronus' `Command::new(name)` inherits),
//!  * killability: a case that hangs (C15: "never blocks forever") is killed after its limit,
//!  * containment of aborts.

use crate::engine::{Failure, Payload, Prop, Recorder, Tier, judge};
use serde_json::{Value as J, json};
use std::io::{BufRead, BufReader, Write};
use std::process::{Child, ChildStdin, Command, Stdio};
use std::sync::mpsc::{Receiver, RecvTimeoutError, channel};
use std::time::Duration;

pub struct Isolated {
    prop_id: String,
    tier: Tier,
    child: Option<(Child, ChildStdin, Receiver<String>)>,
    pub respawns: u64,
}

fn hex(data: &[u8]) -> String {
    data.iter().map(|b| format!("{:02x}", b)).collect()
}
fn unhex(s: &str) -> Vec<u8> {
    (0..s.len() / 2).filter_map(|i| u8::from_str_radix(&s[2 * i..2 * i + 2], 16).ok()).collect()
}

fn rec_to_json(ok: &Result<(), Failure>, rec: &Recorder) -> J {
    json!({
        "ok": ok.is_ok(),
        "sig": ok.as_ref().err().map(|f| f.sig.clone()).unwrap_or_default(),
        "detail": ok.as_ref().err().map(|f| f.detail.clone()).unwrap_or_default(),
        "ev": rec.evaluations,
        "nt": rec.nontrivial.iter().map(|h| h.to_string()).collect::<Vec<_>>(),
        "labels": rec.labels,
        "samples": rec.samples,
        "known": rec.known_hits,
        "excl": rec.excluded,
        "coll": rec.collected.iter().map(|(k, (n, d))| (k.clone(), json!([n, d]))).collect::<serde_json::Map<String, J>>(),
    })
}

fn merge_json(rec: &mut Recorder, v: &J) {
    if rec.frozen {
        return;
    }
    rec.evaluations += v["ev"].as_u64().unwrap_or(0);
    if let Some(a) = v["nt"].as_array() {
        for h in a {
            if let Some(h) = h.as_str().and_then(|s| s.parse::<u64>().ok()) {
                rec.nontrivial.insert(h);
            }
        }
    }
    for (key, target) in [("labels", 0), ("known", 1), ("excl", 2)] {
        if let Some(m) = v[key].as_object() {
            for (k, n) in m {
                let n = n.as_u64().unwrap_or(0);
                let map = match target {
                    0 => &mut rec.labels,
                    1 => &mut rec.known_hits,
                    _ => &mut rec.excluded,
                };
                *map.entry(k.clone()).or_insert(0) += n;
            }
        }
    }
    if let Some(a) = v["samples"].as_array() {
        for s in a {
            if let Some(s) = s.as_str() {
                rec.sample(s.to_string());
            }
        }
    }
    if let Some(m) = v["coll"].as_object() {
        for (k, nd) in m {
            let n = nd[0].as_u64().unwrap_or(1);
            let d = nd[1].as_str().unwrap_or("").to_string();
            let e = rec.collected.entry(k.clone()).or_insert((0, d));
            e.0 += n;
        }
    }
}

impl Isolated {
    pub fn new(prop_id: &str, tier: Tier) -> Self {
        Isolated { prop_id: prop_id.to_string(), tier, child: None, respawns: 0 }
    }

    fn ensure(&mut self) -> Result<(), String> {
        if self.child.is_some() {
            return Ok(());
        }
        let exe = std::env::current_exe().map_err(|e| e.to_string())?;
        // own process group: the worker's solver processes (shim, z3) die with it when it is killed
        use std::os::unix::process::CommandExt;
        // address-space limit (inherited by the shim and z3): a runaway solver query fails in its own
        // process instead of exhausting the machine (PV_WORKER_MEM_KB, default 8 GB per process)
        let mem_kb = std::env::var("PV_WORKER_MEM_KB").ok().and_then(|s| s.parse::<u64>().ok()).unwrap_or(8_000_000);
        let mut child = Command::new("sh")
            .process_group(0)
            .arg("-c")
            .arg(format!("ulimit -v {}; exec \"$0\" \"$@\"", mem_kb))
            .arg(exe)
            .args(["--worker", &self.prop_id, self.tier.name()])
            .stdin(Stdio::piped())
            .stdout(Stdio::piped())
            .stderr(Stdio::null())
            .spawn()
            .map_err(|e| format!("cannot spawn worker: {}", e))?;
        let stdin = child.stdin.take().unwrap();
        let stdout = child.stdout.take().unwrap();
        let (tx, rx) = channel();
        std::thread::spawn(move || {
            let reader = BufReader::new(stdout);
            for line in reader.lines() {
                match line {
                    Ok(l) => {
                        if let Some(r) = l.strip_prefix("PVRESULT ") {
                            if tx.send(r.to_string()).is_err() {
                                break;
                            }
                        }
                    }
                    Err(_) => break,
                }
            }
        });
        self.child = Some((child, stdin, rx));
        self.respawns += 1;
        Ok(())
    }

    fn kill(&mut self) -> String {
        if let Some((mut child, _, _)) = self.child.take() {
            // the whole group (pgid == worker pid), then the worker itself
            let _ = Command::new("kill")
                .args(["-KILL", "--", &format!("-{}", child.id())])
                .stdout(Stdio::null())
                .stderr(Stdio::null())
                .status();
            let _ = child.kill();
            match child.wait() {
                Ok(st) => format!("{}", st),
                Err(e) => e.to_string(),
            }
        } else {
            String::new()
        }
    }

    pub fn judge(&mut self, payload: &Payload, rec: &mut Recorder, limit_secs: u64) -> Result<(), Failure> {
        if let Err(e) = self.ensure() {
            return Err(Failure::new("harness/isolate-spawn", e));
        }
        let line = match payload {
            Payload::Tape(t) => format!("T {} {}\n", rec.frozen as u8, hex(t)),
            Payload::Item(i) => format!("I {} {}\n", rec.frozen as u8, i),
            Payload::Bytes(b) => format!("B {} {}\n", rec.frozen as u8, hex(b)),
        };
        {
            let (_, stdin, _) = self.child.as_mut().unwrap();
            if stdin.write_all(line.as_bytes()).and_then(|_| stdin.flush()).is_err() {
                let st = self.kill();
                return Err(Failure::new("crash/worker-process-died", format!("worker exited ({}) before accepting the case", st)));
            }
        }
        let res = {
            let (_, _, rx) = self.child.as_ref().unwrap();
            rx.recv_timeout(Duration::from_secs(limit_secs))
        };
        match res {
            Ok(text) => match serde_json::from_str::<J>(&text) {
                Ok(v) => {
                    merge_json(rec, &v);
                    if v["ok"].as_bool().unwrap_or(false) {
                        Ok(())
                    } else {
                        Err(Failure::new(v["sig"].as_str().unwrap_or("?"), v["detail"].as_str().unwrap_or("")))
                    }
                }
                Err(e) => Err(Failure::new("harness/isolate-protocol", format!("{}: {}", e, text))),
            },
            Err(RecvTimeoutError::Timeout) => {
                self.kill();
                Err(Failure::new(
                    "hang/isolated-case-timeout",
                    format!("the case did not finish within {} s and its process was killed", limit_secs),
                ))
            }
            Err(RecvTimeoutError::Disconnected) => {
                let st = self.kill();
                Err(Failure::new(
                    "crash/worker-process-died",
                    format!("the worker process died while judging the case ({})", st),
                ))
            }
        }
    }
}

impl Drop for Isolated {
    fn drop(&mut self) {
        self.kill();
    }
}

/// `pvcheck --worker <id> <tier>`: judge cases read from stdin, one result line per case.
pub fn worker_main(prop: &dyn Prop, tier: Tier) -> i32 {
    // if the engine process disappears (killed from outside, watchdog exit) take the solver
    // processes of this worker down with it instead of leaving them running
    let parent = std::os::unix::process::parent_id();
    std::thread::spawn(move || loop {
        std::thread::sleep(Duration::from_millis(500));
        if std::os::unix::process::parent_id() != parent {
            let _ = Command::new("kill")
                .args(["-KILL", "--", &format!("-{}", std::process::id())])
                .stdout(Stdio::null())
                .stderr(Stdio::null())
                .status();
            std::process::exit(3);
        }
    });
    if let Err(e) = prop.setup(tier) {
        println!("PVRESULT {}", json!({"ok": false, "sig": "harness/setup", "detail": e}));
        return 2;
    }
    let stdin = std::io::stdin();
    for line in stdin.lock().lines() {
        let Ok(line) = line else { break };
        let mut parts = line.split_whitespace();
        let kind = parts.next().unwrap_or("");
        let frozen = parts.next() == Some("1");
        let arg = parts.next().unwrap_or("");
        let payload = match kind {
            "T" => Payload::Tape(unhex(arg)),
            "I" => Payload::Item(arg.parse().unwrap_or(0)),
            "B" => Payload::Bytes(unhex(arg)),
            _ => continue,
        };
        let mut rec = Recorder::new();
        rec.max_samples = 1;
        rec.frozen = frozen;
        let r = judge(prop, &payload, tier, &mut rec);
        rec.frozen = false;
        let out = std::io::stdout();
        let mut o = out.lock();
        let _ = writeln!(o, "PVRESULT {}", rec_to_json(&r, &rec));
        let _ = o.flush();
    }
    0
}
