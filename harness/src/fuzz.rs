//! Entry points for the cargo-fuzz targets in /verif/fuzz: the same decoders and in-target oracles
//! as the proptest runner. A failure that is not a listed open finding panics (libFuzzer records the
//! input as a crash); listed findings are tolerated in-target so that campaigns do not rediscover
//! one crash forever.

use crate::engine::{Failure, KnownFindings, Payload, Prop, Recorder, Tier, guard, install_panic_hook, judge};
use std::sync::{Arc, Once, OnceLock};

static INIT: Once = Once::new();

fn init() {
    INIT.call_once(|| {
        // libfuzzer-sys installs an aborting panic hook; ours sits in front of it and stays silent
        // inside `guard` (expected panics of listed findings), and falls through otherwise
        install_panic_hook();
    });
}

fn known() -> &'static KnownFindings {
    static K: OnceLock<KnownFindings> = OnceLock::new();
    K.get_or_init(KnownFindings::load)
}

fn report(id: &str, f: &Failure) -> ! {
    eprintln!("PV-FUZZ-VIOLATION property={} signature={}", id, f.sig);
    for l in f.detail.lines().take(20) {
        eprintln!("    {}", l);
    }
    panic!("PV-FUZZ-VIOLATION property={} signature={}", id, f.sig);
}

fn prop_by_id(id: &str) -> Option<Arc<dyn Prop>> {
    crate::props::all().into_iter().find(|p| p.id() == id)
}

/// choice-tape target; property chosen by PV_FUZZ_PROP (default C01)
pub fn tape(data: &[u8]) {
    init();
    static P: OnceLock<Arc<dyn Prop>> = OnceLock::new();
    let prop = P.get_or_init(|| {
        let id = std::env::var("PV_FUZZ_PROP").unwrap_or_else(|_| "C01".into());
        prop_by_id(&id).expect("unknown PV_FUZZ_PROP")
    });
    let mut rec = Recorder::new();
    rec.max_samples = 0;
    if let Err(f) = judge(prop.as_ref(), &Payload::Tape(data.to_vec()), Tier::Quick, &mut rec) {
        if known().matches(prop.id(), &f.sig).is_none() {
            report(prop.id(), &f);
        }
    }
}

/// raw bytes into the btor2 reader (C18)
pub fn c18_bytes(data: &[u8]) {
    init();
    let Ok(text) = std::str::from_utf8(data) else { return };
    if crate::props::c18::huge_width(text) {
        return;
    }
    let mut rec = Recorder::new();
    if let Err(f) = crate::props::c18::judge_text(text, &mut rec) {
        if known().matches("C18", &f.sig).is_none() {
            report("C18", &f);
        }
    }
}

/// raw bytes into the SMT-LIB readers (C14 iv): any outcome but a panic is acceptable for arbitrary
/// bytes; an accepted term must be well-typed
pub fn c14_bytes(data: &[u8]) {
    init();
    if let Err(f) = c14_bytes_judge(data) {
        if known().matches("C14", &f.sig).is_none() {
            report("C14", &f);
        }
    }
}

pub fn c14_bytes_judge(data: &[u8]) -> Result<(), Failure> {
    use patronus::expr::Context;
    use patronus::smt::{parse_command, parse_expr};
    use rustc_hash::FxHashMap;
    if data.is_empty() {
        return Ok(());
    }
    let mut ctx = Context::default();
    let mut st: FxHashMap<String, patronus::expr::ExprRef> = FxHashMap::default();
    for (n, w) in [("a", 1u32), ("b", 4), ("c", 4), ("d", 65)] {
        st.insert(n.to_string(), ctx.bv_symbol(n, w));
    }
    st.insert("m".to_string(), ctx.array_symbol("m", 2, 4));
    let body = &data[1..];
    let which = data[0] & 1;
    let r = guard(|| {
        if which == 0 {
            parse_expr(&mut ctx, &st, body).ok()
        } else {
            match parse_command(&mut ctx, &st, body) {
                Ok(patronus::smt::SmtCommand::Assert(e)) => Some(e),
                _ => None,
            }
        }
    });
    let f = match r {
        Err(p) => {
            let sig = if p.file.ends_with("expr/context.rs") || p.file.ends_with("expr/types.rs") {
                "smt-read/ill-sorted-operands/panic-in-builder".to_string()
            } else {
                format!("smt-read/bytes/{}", p.class())
            };
            Some(Failure::new(sig, format!("{}:{} {}\ninput: {:?}", p.file, p.line, p.msg, String::from_utf8_lossy(body))))
        }
        Ok(Some(e)) => match crate::refeval::deep_type_check(&ctx, &[e]) {
            Ok(_) => None,
            Err(m) => Some(Failure::new(
                "smt-read/ill-sorted-operands/accepted-ill-typed",
                format!("{}\ninput: {:?}", m, String::from_utf8_lossy(body)),
            )),
        },
        Ok(None) => None,
    };
    match f {
        Some(f) => Err(f),
        None => Ok(()),
    }
}
