//! Transition-system generator. "Well-formed" means: every expression type-checks; constraints and
//! bad states are 1-bit; init/next have the state's type; every symbol used is a declared input or
//! state; names are distinct; init expressions refer only to literals, earlier states and (with low
//! weight) inputs.

use crate::gen_expr::{ExprGen, GenCfg, WidthProfile};
use crate::refval::Bv;
use crate::tape::Tape;
use patronus::expr::{ArrayType, Context, ExprRef, Type, TypeCheck};
use patronus::system::{State, TransitionSystem};

#[derive(Clone, Debug)]
pub struct SysCfg {
    pub max_state_bits: u32,
    pub max_input_bits: u32,
    pub max_states: u32,
    pub max_inputs: u32,
    pub arrays: bool,
    /// allow a state of up to 70 bits (non-enumerative checks only)
    pub wide_states: bool,
    /// sometimes add one wide (65-200 bit) state that only ever holds one of three wide literals: the
    /// reachable set stays tiny (explicit-state oracles still work) while wide values travel through
    /// the encoder, the solver's model and the witness
    pub wide_const_state: bool,
    pub expr_steps: u32,
    /// name some inputs `_input_N` / `_state_N` (anonymous-input removal)
    pub anon_inputs: bool,
    /// allow outputs that alias states/inputs and debug names on intermediate nodes
    pub names_and_aliases: bool,
    pub max_bads: u32,
    pub max_constraints: u32,
    pub divrem: bool,
    /// allow init expressions that read inputs (the initial state depends on the first input)
    pub init_may_read_inputs: bool,
    /// bias towards systems with deep counterexamples / large diameters (model checking properties):
    /// literal inits, counter-like next functions, bad states of the shape `state == value`
    pub mc_bias: bool,
    /// sometimes interleave the construction with unrelated filler nodes, so that the expression ids
    /// of the system spread over several hundred ids (id-indexed sets and maps of more than one word)
    pub pad_ctx: bool,
    /// sometimes add a few dozen extra named outputs that alias states, inputs and shared nodes
    pub many_outputs: bool,
    /// sometimes give inputs and states generated names (any characters that can stand in one btor2
    /// token) instead of names from the fixed lists
    pub token_names: bool,
}

impl Default for SysCfg {
    fn default() -> Self {
        SysCfg {
            max_state_bits: 10,
            max_input_bits: 6,
            max_states: 4,
            max_inputs: 3,
            arrays: true,
            wide_states: false,
            wide_const_state: false,
            expr_steps: 6,
            anon_inputs: false,
            names_and_aliases: true,
            max_bads: 3,
            max_constraints: 2,
            divrem: false,
            init_may_read_inputs: true,
            mc_bias: false,
            pad_ctx: true,
            many_outputs: false,
            token_names: false,
        }
    }
}

pub struct SysCase {
    pub ctx: Context,
    pub sys: TransitionSystem,
}

pub fn type_bits(t: Type) -> u32 {
    match t {
        Type::BV(w) => w,
        Type::Array(a) => (1u32 << a.index_width.min(16)) * a.data_width,
    }
}

const STATE_NAMES: [&str; 6] = ["s0", "cnt", "reg_a", "mem", "flag", "st5"];
const INPUT_NAMES: [&str; 4] = ["in0", "en", "data", "sel"];

fn bool_lit(ctx: &mut Context, t: &mut Tape) -> ExprRef {
    if t.flag() { ctx.get_true() } else { ctx.get_false() }
}

/// characters that cannot stand inside one btor2 token: blank and tab separate tokens, `;` starts a
/// comment, line terminators end the line
const TOKEN_FORBIDDEN: [char; 7] = [' ', '\t', ';', '\u{85}', '\u{2028}', '\u{b}', '\u{c}'];

pub fn gen_system(t: &mut Tape, cfg: &SysCfg) -> SysCase {
    let mut ctx = Context::default();
    let mut sys = TransitionSystem::new("pvsys".to_string());
    let ecfg = GenCfg {
        widths: WidthProfile::Tiny,
        arrays: cfg.arrays,
        divrem: cfg.divrem,
        max_steps: cfg.expr_steps,
        exotic_names: false,
        max_index_width: 2,
    };
    let mut g = ExprGen::new(ecfg);
    // filler: unrelated nodes between the pieces of the system
    let padding = cfg.pad_ctx && t.chance(56);
    let mut pad_count = 0u32;
    let mut pad = |ctx: &mut Context, t: &mut Tape| {
        if !padding {
            return;
        }
        let n = t.below(140);
        for _ in 0..n {
            let s = ctx.bv_symbol(&format!("pad{}", pad_count), 8);
            pad_count += 1;
            if pad_count % 3 == 0 {
                let l = ctx.bv_lit(&Bv::from_u64(8, (pad_count % 251) as u64).to_baa());
                let _ = ctx.add(s, l);
            }
        }
    };
    pad(&mut ctx, t);

    // ---- state and input types under the bit budgets
    let n_states = if cfg.mc_bias { 1 + t.below(cfg.max_states.max(1)) } else { t.below(cfg.max_states + 1) };
    let mut state_types: Vec<Type> = vec![];
    let mut bits_left = cfg.max_state_bits;
    for k in 0..n_states {
        if bits_left == 0 {
            break;
        }
        let tpe = if cfg.arrays && t.chance(50) && bits_left >= 2 {
            let iw = t.range(1, 2);
            let max_dw = (bits_left / (1 << iw)).min(3);
            if max_dw >= 1 {
                Type::Array(ArrayType { index_width: iw, data_width: t.range(1, max_dw) })
            } else {
                Type::BV(t.range(1, bits_left.min(4)))
            }
        } else if cfg.wide_states && k == 0 && t.chance(40) {
            Type::BV(t.range(5, 70))
        } else if cfg.mc_bias && bits_left >= 2 {
            // 0 -> 3 bits, wider counters give longer paths
            Type::BV([3u32, 2, 4, 1][t.below(4) as usize].min(bits_left))
        } else {
            Type::BV(t.range(1, bits_left.min(4)))
        };
        let b = type_bits(tpe);
        if !cfg.wide_states || b <= 4 || matches!(tpe, Type::Array(_)) {
            if b > bits_left {
                break;
            }
            bits_left -= b;
        }
        state_types.push(tpe);
    }
    // a "gate": a 1-bit state that no next-state function reads; only a constraint (and perhaps a bad
    // state) looks at it, so whether a step is enabled depends on a state the transition relation
    // otherwise ignores
    let with_gate = cfg.mc_bias && bits_left >= 1 && !state_types.is_empty() && t.chance(110);
    if with_gate {
        state_types.push(Type::BV(1));
    }
    let n_inputs = t.below(cfg.max_inputs + 1);
    let mut input_types: Vec<Type> = vec![];
    let mut ibits = cfg.max_input_bits;
    for _ in 0..n_inputs {
        if ibits == 0 {
            break;
        }
        let w = t.range(1, ibits.min(3));
        ibits -= w;
        input_types.push(Type::BV(w));
    }

    if with_gate && !input_types.iter().any(|t| *t == Type::BV(1)) {
        if input_types.len() as u32 >= cfg.max_inputs.max(1) {
            input_types.pop();
        }
        input_types.push(Type::BV(1));
    }
    // ---- inputs (an init expression may read inputs when `init_reads_inputs` is drawn: the
    //      initial state then depends on the input of step 0, as in inputs/unittest/dangling.btor2)
    let init_reads_inputs = cfg.init_may_read_inputs && t.chance(48);
    let mut inputs = vec![];
    for (k, tpe) in input_types.iter().enumerate() {
        let name = if cfg.anon_inputs && t.chance(110) {
            if t.flag() { format!("_input_{}", k) } else { format!("_state_{}", k) }
        } else {
            if cfg.token_names && t.chance(64) {
                crate::gen_expr::random_name(t, &TOKEN_FORBIDDEN, &format!("_i{}", k))
            } else {
                INPUT_NAMES[k % INPUT_NAMES.len()].to_string()
            }
        };
        let sym = match tpe {
            Type::BV(w) => ctx.bv_symbol(&name, *w),
            Type::Array(a) => ctx.array_symbol(&name, a.index_width, a.data_width),
        };
        if init_reads_inputs {
            g.add_symbol(&ctx, sym);
        }
        inputs.push(sym);
    }
    pad(&mut ctx, t);
    // ---- states in declaration order; init may only mention earlier states, literals (and inputs)
    let mut states: Vec<(ExprRef, Option<ExprRef>)> = vec![];
    // states that are re-loaded with their (non-literal) init expression every cycle: init == next
    let mut reload: Vec<bool> = vec![];
    let gate_idx = if with_gate { Some(state_types.len() - 1) } else { None };
    for (k, tpe) in state_types.iter().enumerate() {
        if Some(k) == gate_idx {
            reload.push(false);
            let init = match t.below(3) {
                0 => None,
                1 => Some(ctx.get_true()),
                _ => Some(ctx.get_false()),
            };
            let sym = ctx.bv_symbol("gate", 1);
            // deliberately not added to the expression generator's pool: nothing else reads it
            states.push((sym, init));
            continue;
        }
        let is_reload = (k > 0 || init_reads_inputs) && t.chance(if cfg.mc_bias { 44 } else { 24 });
        reload.push(is_reload);
        let init = match if is_reload { 2 } else { t.weighted(if cfg.mc_bias { &[1, 7, 2] } else { &[3, 4, 3] }) } {
            0 => None,
            1 => Some(match tpe {
                // literal / constant array
                Type::BV(w) => {
                    let v = t.bits(*w);
                    ctx.bv_lit(&Bv::new(*w, v).to_baa())
                }
                Type::Array(a) => {
                    let v = t.bits(a.data_width);
                    let d = ctx.bv_lit(&Bv::new(a.data_width, v).to_baa());
                    ctx.array_const(d, a.index_width)
                }
            }),
            _ => {
                let steps = if is_reload { 1 + t.below(cfg.expr_steps) } else { t.below(cfg.expr_steps + 1) };
                Some(g.of_type(&mut ctx, t, *tpe, steps))
            }
        };
        if k % 2 == 1 {
            pad(&mut ctx, t);
        }
        let generated;
        let name: &str = if cfg.token_names && t.chance(64) {
            generated = crate::gen_expr::random_name(t, &TOKEN_FORBIDDEN, &format!("_s{}", k));
            &generated
        } else {
            STATE_NAMES[k % STATE_NAMES.len()]
        };
        let sym = match tpe {
            Type::BV(w) => ctx.bv_symbol(name, *w),
            Type::Array(a) => ctx.array_symbol(name, a.index_width, a.data_width),
        };
        g.add_symbol(&ctx, sym);
        states.push((sym, init));
    }
    if !init_reads_inputs {
        for i in inputs.iter() {
            g.add_symbol(&ctx, *i);
        }
    }
    // inputs need not be registered in the order in which their symbols were created (a btor2 file
    // whose dangling states are demoted to inputs, or a client that builds symbols first, gives
    // an input list that is not sorted by expression id)
    let mut reg_order: Vec<ExprRef> = inputs.clone();
    if reg_order.len() >= 2 && t.chance(72) {
        if t.flag() {
            reg_order.reverse();
        } else {
            let k = 1 + t.below(reg_order.len() as u32 - 1) as usize;
            reg_order.rotate_left(k);
        }
    }
    for i in reg_order.iter() {
        sys.add_input(&ctx, *i);
    }
    pad(&mut ctx, t);
    // ---- next functions
    for (k, (sym, init)) in states.iter().enumerate() {
        let tpe = sym.get_type(&ctx);
        if Some(k) == gate_idx {
            // the gate follows a bit of another state, an input bit, or toggles
            let others: Vec<ExprRef> =
                states[..k].iter().map(|(s, _)| *s).filter(|s| s.get_type(&ctx).is_bit_vector()).collect();
            let bools: Vec<ExprRef> = inputs.iter().copied().filter(|i| i.get_bv_type(&ctx) == Some(1)).collect();
            let src = match t.weighted(&[10, 2, 2]) {
                0 if !others.is_empty() => {
                    let o = others[t.below(others.len() as u32) as usize];
                    let w = o.get_bv_type(&ctx).unwrap();
                    let b = t.below(w);
                    ctx.slice(o, b, b)
                }
                1 if !bools.is_empty() => bools[t.below(bools.len() as u32) as usize],
                _ => {
                    // reads itself: then it is not a pure gate, which is fine as a control case
                    ctx.not(*sym)
                }
            };
            let next = if t.flag() { src } else { ctx.not(src) };
            sys.add_state(&ctx, State { symbol: *sym, init: *init, next: Some(next) });
            continue;
        }
        if reload[k] {
            sys.add_state(&ctx, State { symbol: *sym, init: *init, next: *init });
            continue;
        }
        // with mc_bias the simplest (all-zero tape) choice is the counter-like update
        let next_choice = if cfg.mc_bias { [3usize, 1, 2, 0, 4, 5][t.weighted(&[8, 4, 1, 1, 2, 4])] } else { t.weighted(&[1, 6, 1, 4, 1]) };
        let next = match next_choice {
            0 => None,
            1 => {
                let steps = 1 + t.below(cfg.expr_steps);
                Some(g.of_type(&mut ctx, t, tpe, steps))
            }
            2 => Some(*sym), // constant state
            // chained counter: advances only while an earlier state holds a particular value, so the
            // reachable set is a relation between states (long diameters, relational invariants)
            5 if k > 0 && tpe.is_bit_vector() && states[..k].iter().any(|(s, _)| s.get_type(&ctx).is_bit_vector()) => {
                let w = tpe.get_bit_vector_width().unwrap();
                let prev: Vec<ExprRef> =
                    states[..k].iter().map(|(s, _)| *s).filter(|s| s.get_type(&ctx).is_bit_vector()).collect();
                let p = prev[t.below(prev.len() as u32) as usize];
                let pw = p.get_bv_type(&ctx).unwrap();
                let pv = ctx.bv_lit(&Bv::new(pw, t.bits(pw)).to_baa());
                let cond = if t.flag() { ctx.equal(p, pv) } else { ctx.greater_or_equal(p, pv) };
                let one = ctx.bv_lit(&Bv::from_u64(w, 1).to_baa());
                let inc = ctx.add(*sym, one);
                Some(ctx.ite(cond, inc, *sym))
            }
            5 => {
                let steps = 1 + t.below(cfg.expr_steps);
                Some(g.of_type(&mut ctx, t, tpe, steps))
            }
            // re-loaded with its init expression every cycle (the identical reference)
            4 if init.is_some() => *init,
            4 => Some(*sym),
            _ => match tpe {
                // counter-like updates: long paths and large diameters
                Type::BV(w) => {
                    let k = if t.flag() { 1 } else { t.bits(w).iter_u64_digits().next().unwrap_or(1) | 1 };
                    let lit = ctx.bv_lit(&Bv::from_u64(w, k & if w >= 64 { u64::MAX } else { (1u64 << w) - 1 }).to_baa());
                    let inc = if t.flag() { ctx.add(*sym, lit) } else { ctx.sub(*sym, lit) };
                    let bools: Vec<ExprRef> = inputs.iter().copied().filter(|i| i.get_bv_type(&ctx) == Some(1)).collect();
                    if with_gate && !bools.is_empty() && t.chance(200) {
                        // advances only under the input that the gate's constraint guards; otherwise holds or
                        // falls back to zero
                        let en = bools[0];
                        let other = if t.flag() { ctx.zero(w) } else { *sym };
                        Some(ctx.ite(en, inc, other))
                    } else if !bools.is_empty() && t.flag() {
                        let en = bools[t.below(bools.len() as u32) as usize];
                        Some(ctx.ite(en, inc, *sym))
                    } else if t.chance(60) && w >= 2 {
                        // saturating counter
                        let max = ctx.bv_lit(&Bv::ones(w).to_baa());
                        let at_max = ctx.equal(*sym, max);
                        Some(ctx.ite(at_max, *sym, inc))
                    } else {
                        Some(inc)
                    }
                }
                Type::Array(_) => {
                    let steps = 1 + t.below(cfg.expr_steps);
                    Some(g.of_type(&mut ctx, t, tpe, steps))
                }
            },
        };
        sys.add_state(&ctx, State { symbol: *sym, init: *init, next });
    }
    pad(&mut ctx, t);
    // ---- constraints (biased to be satisfiable)
    let n_con = if cfg.mc_bias { (t.weighted(&[5, 4, 1]) as u32).min(cfg.max_constraints) } else { t.below(cfg.max_constraints + 1) };
    for _ in 0..n_con {
        let c = match t.weighted(if cfg.mc_bias { &[5, 4, 1, 0] } else { &[4, 3, 3, 1] }) {
            0 if !inputs.is_empty() => {
                // in < k  (k >= 1)
                let i = inputs[t.below(inputs.len() as u32) as usize];
                let w = i.get_bv_type(&ctx).unwrap();
                let k = 1 + t.below((1u32 << w) - 1).min((1 << w) - 1);
                let kl = ctx.bv_lit(&Bv::from_u64(w, k as u64).to_baa());
                ctx.greater(kl, i)
            }
            1 if states.iter().any(|(s, _)| s.get_type(&ctx).is_bit_vector()) => {
                // s != v
                let bvs: Vec<ExprRef> =
                    states.iter().map(|(s, _)| *s).filter(|s| s.get_type(&ctx).is_bit_vector()).collect();
                let s = bvs[t.below(bvs.len() as u32) as usize];
                let w = s.get_bv_type(&ctx).unwrap();
                let v = t.bits(w);
                let vl = ctx.bv_lit(&Bv::new(w, v).to_baa());
                ctx.distinct(s, vl)
            }
            3 => bool_lit(&mut ctx, t),
            _ => {
                let steps = 1 + t.below(cfg.expr_steps);
                g.of_type(&mut ctx, t, Type::BV(1), steps)
            }
        };
        sys.constraints.push(c);
    }
    pad(&mut ctx, t);
    if let Some(gi) = gate_idx {
        let gate = states[gi].0;
        let bools: Vec<ExprRef> = inputs.iter().copied().filter(|i| i.get_bv_type(&ctx) == Some(1)).collect();
        let c = match t.weighted(&[10, 2, 1, 1]) {
            0 if !bools.is_empty() => {
                let g = if t.chance(64) { ctx.not(gate) } else { gate };
                ctx.implies(bools[0], g)
            }
            1 if !bools.is_empty() => {
                let i = bools[t.below(bools.len() as u32) as usize];
                ctx.or(i, gate)
            }
            2 => gate,
            _ => ctx.not(gate),
        };
        sys.constraints.push(c);
    }
    // ---- bad states
    let n_bad = if cfg.mc_bias { 1 + t.weighted(&[6, 2, 1]).min(cfg.max_bads.max(1) as usize - 1) as u32 } else { 1 + t.below(cfg.max_bads.max(1)) };
    for _ in 0..n_bad {
        let b = match t.weighted(if cfg.mc_bias { &[9, 3, 1, 4] } else { &[4, 5, 1, 0] }) {
            0 if states.iter().any(|(s, _)| s.get_type(&ctx).is_bit_vector()) => {
                let bvs: Vec<ExprRef> =
                    states.iter().map(|(s, _)| *s).filter(|s| s.get_type(&ctx).is_bit_vector()).collect();
                let s = bvs[t.below(bvs.len() as u32) as usize];
                let w = s.get_bv_type(&ctx).unwrap();
                // a value away from the (literal) initial value: deeper counterexamples
                let init_lit = states
                    .iter()
                    .find(|(x, _)| *x == s)
                    .and_then(|(_, i)| *i)
                    .and_then(|i| crate::refeval::lit_value(&ctx, i));
                let v = match (cfg.mc_bias, init_lit) {
                    (true, Some(iv)) => {
                        let off = 1 + t.below(if w >= 5 { 30 } else { (1u32 << w) - 1 });
                        iv.add(&Bv::from_u64(w, off as u64)).v
                    }
                    _ => t.bits(w),
                };
                let vl = ctx.bv_lit(&Bv::new(w, v).to_baa());
                ctx.equal(s, vl)
            }
            2 => bool_lit(&mut ctx, t),
            // relation between two states, or a conjunction of two state values
            3 if states.iter().filter(|(s, _)| s.get_type(&ctx).is_bit_vector()).count() >= 2 => {
                let bvs: Vec<ExprRef> =
                    states.iter().map(|(s, _)| *s).filter(|s| s.get_type(&ctx).is_bit_vector()).collect();
                let i = t.below(bvs.len() as u32) as usize;
                let j = (i + 1 + t.below(bvs.len() as u32 - 1) as usize) % bvs.len();
                let (a, b) = (bvs[i], bvs[j]);
                let (wa, wb) = (a.get_bv_type(&ctx).unwrap(), b.get_bv_type(&ctx).unwrap());
                if wa == wb && t.flag() {
                    match t.below(3) {
                        0 => ctx.equal(a, b),
                        1 => ctx.greater(a, b),
                        _ => {
                            let x = ctx.xor(a, b);
                            let m = ctx.bv_lit(&Bv::ones(wa).to_baa());
                            ctx.equal(x, m)
                        }
                    }
                } else {
                    let va = ctx.bv_lit(&Bv::new(wa, t.bits(wa)).to_baa());
                    let vb = ctx.bv_lit(&Bv::new(wb, t.bits(wb)).to_baa());
                    let ea = ctx.equal(a, va);
                    let eb = ctx.equal(b, vb);
                    ctx.and(ea, eb)
                }
            }
            _ => {
                let steps = 1 + t.below(cfg.expr_steps);
                g.of_type(&mut ctx, t, Type::BV(1), steps)
            }
        };
        sys.bad_states.push(b);
    }
    // ---- optional wide state over three literals
    if cfg.wide_const_state && t.chance(72) {
        let w = match t.below(4) {
            0 => *t.pick(&[65u32, 70, 72, 100, 127, 130, 200]),
            1 => *t.pick(&[128u32, 192]),
            _ => t.range(65, 200),
        };
        // values with bits in the top (partial) word and in the low word
        let lit = |ctx: &mut Context, t: &mut Tape| -> ExprRef {
            let v = t.bits(w) | (num_bigint::BigUint::from(1u32) << (w - 1 - t.below(3))) | num_bigint::BigUint::from(t.below(200));
            ctx.bv_lit(&Bv::new(w, v).to_baa())
        };
        let l0 = lit(&mut ctx, t);
        let l1 = lit(&mut ctx, t);
        let l2 = lit(&mut ctx, t);
        let sym = ctx.bv_symbol("wide", w);
        let cond_steps = 1 + t.below(2);
        let cond = g.of_type(&mut ctx, t, Type::BV(1), cond_steps);
        let next = if t.flag() { ctx.ite(cond, l1, sym) } else { ctx.ite(cond, l1, l2) };
        sys.add_state(&ctx, State { symbol: sym, init: Some(l0), next: Some(next) });
        if t.flag() {
            let target = if t.flag() { l1 } else { l0 };
            let b = ctx.equal(sym, target);
            if (sys.bad_states.len() as u32) < cfg.max_bads.max(1) && t.flag() {
                sys.bad_states.push(b);
            } else if let Some(last) = sys.bad_states.last().copied() {
                // strengthen an existing property with the wide comparison
                let both = ctx.and(last, b);
                *sys.bad_states.last_mut().unwrap() = both;
            }
        }
    }
    pad(&mut ctx, t);
    // ---- outputs
    if cfg.names_and_aliases {
        let n_out = t.below(3);
        for k in 0..n_out {
            let e = if t.chance(80) && !states.is_empty() {
                // a label that aliases a state
                let s = states[t.below(states.len() as u32) as usize].0;
                if s.get_type(&ctx).is_bit_vector() { s } else { g.any_bv(&mut ctx, t).0 }
            } else if t.chance(40) && !inputs.is_empty() {
                inputs[t.below(inputs.len() as u32) as usize]
            } else {
                let steps = t.below(cfg.expr_steps + 1);
                let w = t.range(1, 4);
                g.of_type(&mut ctx, t, Type::BV(w), steps)
            };
            sys.add_output(&mut ctx, format!("out{}", k).into(), e);
        }
        // a label storm: dozens of named outputs, several of them on the same state / input / node
        if cfg.many_outputs && t.chance(40) {
            let n = 20 + t.below(45);
            let mut pool: Vec<ExprRef> = states.iter().map(|(s, _)| *s).filter(|s| s.get_type(&ctx).is_bit_vector()).collect();
            pool.extend(inputs.iter().copied().filter(|s| s.get_type(&ctx).is_bit_vector()));
            pool.extend(g.bvs.iter().map(|(e, _)| *e).take(6));
            if !pool.is_empty() {
                // some states / inputs are also exposed under their own name (how a btor2 file names an
                // otherwise anonymous state), at a random place among the other labels
                let mut own: Vec<(u32, ExprRef)> = vec![];
                for e in pool.iter() {
                    if ctx[*e].is_symbol() && t.chance(120) {
                        own.push((t.below(n + 1), *e));
                    }
                }
                for k in 0..=n {
                    for (at, e) in own.iter() {
                        if *at == k {
                            let name = ctx.get_symbol_name(*e).unwrap().to_string();
                            sys.add_output(&mut ctx, name.into(), *e);
                        }
                    }
                    if k < n {
                        let e = pool[t.below(pool.len() as u32) as usize];
                        sys.add_output(&mut ctx, format!("lbl{}", k).into(), e);
                    }
                }
            }
        }
        // debug names on a few intermediate nodes
        let n_names = t.below(3);
        for k in 0..n_names {
            if g.bvs.is_empty() {
                break;
            }
            let (e, _) = g.bvs[t.below(g.bvs.len() as u32) as usize];
            if !ctx[e].is_symbol() && !ctx[e].is_bv_lit() && sys.names[e].is_none() {
                let n = ctx.string(format!("dbg{}", k).into());
                sys.names[e] = Some(n);
            }
        }
    }
    SysCase { ctx, sys }
}

pub fn show_system(ctx: &Context, sys: &TransitionSystem) -> String {
    use crate::refeval::show;
    let mut s = String::new();
    for i in sys.inputs.iter() {
        s.push_str(&format!("input {}; ", show(ctx, *i)));
    }
    for st in sys.states.iter() {
        s.push_str(&format!(
            "state {} init={} next={}; ",
            show(ctx, st.symbol),
            st.init.map(|e| show(ctx, e)).unwrap_or("-".into()),
            st.next.map(|e| show(ctx, e)).unwrap_or("-".into())
        ));
    }
    for c in sys.constraints.iter() {
        s.push_str(&format!("constraint {}; ", show(ctx, *c)));
    }
    for b in sys.bad_states.iter() {
        s.push_str(&format!("bad {}; ", show(ctx, *b)));
    }
    for o in sys.outputs.iter() {
        s.push_str(&format!("output {}={}; ", ctx[o.name], show(ctx, o.expr)));
    }
    if s.len() > 1500 {
        let mut cut = 1500;
        while !s.is_char_boundary(cut) {
            cut -= 1;
        }
        s.truncate(cut);
        s.push('…');
    }
    s
}
