//! Second opinion of the *real* solvers (/usr/bin/z3 4.8.12, /usr/bin/cvc5 1.0.3) on text that the
//! reference front end (`smtref`) has already accepted and evaluated. It guards my oracle, not patronus:
//! if `smtref` were too lenient (accepts what a conforming solver rejects) or evaluated an operator
//! differently from the standard, a defect of the writer / encoder could hide behind it. A
//! disagreement is therefore reported as `harness/second-opinion/...` (exit 2), never as a violation.

use crate::smtref::{self, SExpr};
use std::io::{Read, Write};
use std::process::{Command, Stdio};

pub const SOLVERS: [(&str, &str, &[&str]); 2] = [
    ("z3", "/usr/bin/z3", &["-in", "-T:120"]),
    ("cvc5", "/usr/bin/cvc5", &["--lang=smt2", "--tlimit=120000"]),
];

pub fn available() -> bool {
    SOLVERS.iter().all(|(_, p, _)| std::path::Path::new(p).exists())
}

/// Runs `script` through one solver and returns everything it printed on stdout.
pub fn run(solver: usize, script: &str) -> Result<String, String> {
    let (_, path, args) = SOLVERS[solver];
    let mut child = Command::new(path)
        .args(args.iter())
        .stdin(Stdio::piped())
        .stdout(Stdio::piped())
        .stderr(Stdio::null())
        .spawn()
        .map_err(|e| format!("cannot start {}: {}", path, e))?;
    {
        let mut stdin = child.stdin.take().unwrap();
        // a solver that exits early (cvc5 on the first error) closes the pipe: not an error here
        let _ = stdin.write_all(script.as_bytes());
        let _ = stdin.write_all(b"\n(exit)\n");
    }
    let mut out = String::new();
    child.stdout.take().unwrap().read_to_string(&mut out).map_err(|e| e.to_string())?;
    let _ = child.wait();
    Ok(out)
}

pub struct Opinion {
    pub solver: &'static str,
    /// the solver gave up on its time limit (a loaded machine): the opinion is void, never a disagreement
    pub timed_out: bool,
    pub accepted: bool,
    pub output: String,
    pub replies: Vec<SExpr>,
}

/// Sends the script to both solvers. `accepted` = no `(error` and no `unsupported` in the output.
pub fn ask(script: &str) -> Result<Vec<Opinion>, String> {
    let mut out = vec![];
    for (i, (name, _, _)) in SOLVERS.iter().enumerate() {
        let o = run(i, script)?;
        let accepted = !o.contains("(error") && !o.contains("unsupported");
        let replies = smtref::read_all(&o).unwrap_or_default();
        let timed_out = o.contains("timeout") || o.contains("interrupted") || o.trim().is_empty();
        out.push(Opinion { solver: name, timed_out, accepted, output: o, replies });
    }
    Ok(out)
}

pub fn prelude() -> &'static str {
    "(set-option :produce-models true)\n(set-logic ALL)\n"
}

// ---------------------------------------------------------------------------------------------
// solver-proposed assignments (a miter): z3 searches for an assignment under which two expressions
// differ; the caller then *evaluates both with the reference evaluator* under that assignment. The
// solver only proposes an input - it never judges - so a wrong or confused answer (or a defect of the
// writer that produced the text) can at worst lose a detection, never raise an alarm.
// ---------------------------------------------------------------------------------------------

use crate::refeval::Env;
use crate::refval::Val;
use patronus::expr::{Context, ExprRef, Type, TypeCheck};
use patronus::smt::{SmtCommand, serialize_cmd};

fn text_of(ctx: &Context, cmd: &SmtCommand) -> Option<String> {
    crate::engine::guard(|| {
        let mut out = Vec::new();
        serialize_cmd(&mut out, Some(ctx), cmd).expect("write to Vec");
        String::from_utf8_lossy(&out).to_string()
    })
    .ok()
}

pub enum Miter {
    /// an assignment under which z3 says the two expressions differ
    Differ(Env),
    /// z3 proved them equal (unsat)
    Equal,
    /// no usable answer (time limit, array-valued symbols printed as functions, unportable names, ...)
    NoAnswer,
}

/// Asks z3 (5 s limit) for an assignment of `syms` under which `a` and `b` differ.
pub fn distinguish(ctx: &Context, a: ExprRef, b: ExprRef, syms: &[ExprRef]) -> Miter {
    if !std::path::Path::new(SOLVERS[0].1).exists() {
        return Miter::NoAnswer;
    }
    for s in syms {
        let n = ctx.get_symbol_name(*s).unwrap_or("");
        let first = n.chars().next().unwrap_or('0');
        let portable = n.is_ascii()
            && !n.chars().any(|c| c.is_control() || c == '|' || c == '\\')
            && (smtref::needs_quoting(n) || first.is_ascii_alphabetic() || first == '_');
        if !portable || matches!(s.get_type(ctx), Type::Array(_)) {
            return Miter::NoAnswer;
        }
    }
    let mut script = String::from(prelude());
    for s in syms {
        let Some(d) = text_of(ctx, &SmtCommand::DeclareConst(*s)) else { return Miter::NoAnswer };
        script.push_str(&d);
        script.push('\n');
    }
    let term = |e: ExprRef| -> Option<String> {
        let t = text_of(ctx, &SmtCommand::GetValue(e))?;
        let t = t.trim();
        Some(t.strip_prefix("(get-value (")?.strip_suffix("))")?.to_string())
    };
    let (Some(ta), Some(tb)) = (term(a), term(b)) else { return Miter::NoAnswer };
    script.push_str(&format!("(assert (distinct {} {}))\n(check-sat)\n", ta, tb));
    if !syms.is_empty() {
        let names: Vec<String> = syms.iter().map(|s| smtref::print_symbol(ctx.get_symbol_name(*s).unwrap())).collect();
        script.push_str(&format!("(get-value ({}))\n", names.join(" ")));
    }
    let (_, path, _) = SOLVERS[0];
    let out = {
        let mut child = match Command::new(path).args(["-in", "-T:5"]).stdin(Stdio::piped()).stdout(Stdio::piped()).stderr(Stdio::null()).spawn() {
            Ok(c) => c,
            Err(_) => return Miter::NoAnswer,
        };
        {
            let mut stdin = child.stdin.take().unwrap();
            let _ = stdin.write_all(script.as_bytes());
            let _ = stdin.write_all(b"\n(exit)\n");
        }
        let mut o = String::new();
        let _ = child.stdout.take().unwrap().read_to_string(&mut o);
        let _ = child.wait();
        o
    };
    let replies = smtref::read_all(&out).unwrap_or_default();
    match replies.first().and_then(|r| r.sym()) {
        Some("unsat") => Miter::Equal,
        Some("sat") => {
            let mut env = Env::default();
            if syms.is_empty() {
                return Miter::Differ(env);
            }
            let Some(pairs) = replies.get(1).and_then(|r| r.list()) else { return Miter::NoAnswer };
            if pairs.len() != syms.len() {
                return Miter::NoAnswer;
            }
            for (s, p) in syms.iter().zip(pairs.iter()) {
                let Some(p) = p.list().filter(|p| p.len() == 2) else { return Miter::NoAnswer };
                let Ok(v) = smtref::eval(&p[1], &smtref::Scopes::new(), &smtref::ValEnv::new(), &mut vec![]) else {
                    return Miter::NoAnswer;
                };
                let v: Val = v.to_val();
                match (&v, s.get_type(ctx)) {
                    (Val::Bv(b), Type::BV(w)) if b.w == w => {}
                    _ => return Miter::NoAnswer,
                }
                env.insert(*s, v);
            }
            Miter::Differ(env)
        }
        _ => Miter::NoAnswer,
    }
}
