//! Second opinion of the *real* solvers (/usr/bin/z3 4.8.12, /usr/bin/cvc5 1.0.3) on text that the
//! reference front end (`smtref`) has already accepted and evaluated. It guards my oracle, not patronus:
//! if `smtref` were too lenient (accepts what a conforming solver rejects) or evaluated an operator
//! differently from the standard, a defect of the writer / encoder could hide behind it. A
//! disagreement is therefore reported as `harness/second-opinion/...` (exit 2), never as a violation.

use crate::smtref::{self, SExpr};
use std::io::{Read, Write};
use std::process::{Command, Stdio};

pub const SOLVERS: [(&str, &str, &[&str]); 2] = [
    ("z3", "/usr/bin/z3", &["-in", "-T:120"]),
    ("cvc5", "/usr/bin/cvc5", &["--lang=smt2", "--tlimit=120000"]),
];

pub fn available() -> bool {
    SOLVERS.iter().all(|(_, p, _)| std::path::Path::new(p).exists())
}

/// Runs `script` through one solver and returns everything it printed on stdout.
pub fn run(solver: usize, script: &str) -> Result<String, String> {
    let (_, path, args) = SOLVERS[solver];
    let mut child = Command::new(path)
        .args(args.iter())
        .stdin(Stdio::piped())
        .stdout(Stdio::piped())
        .stderr(Stdio::null())
        .spawn()
        .map_err(|e| format!("cannot start {}: {}", path, e))?;
    {
        let mut stdin = child.stdin.take().unwrap();
        // a solver that exits early (cvc5 on the first error) closes the pipe: not an error here
        let _ = stdin.write_all(script.as_bytes());
        let _ = stdin.write_all(b"\n(exit)\n");
    }
    let mut out = String::new();
    child.stdout.take().unwrap().read_to_string(&mut out).map_err(|e| e.to_string())?;
    let _ = child.wait();
    Ok(out)
}

pub struct Opinion {
    pub solver: &'static str,
    /// the solver gave up on its time limit (a loaded machine): the opinion is void, never a disagreement
    pub timed_out: bool,
    pub accepted: bool,
    pub output: String,
    pub replies: Vec<SExpr>,
}

/// Sends the script to both solvers. `accepted` = no `(error` and no `unsupported` in the output.
pub fn ask(script: &str) -> Result<Vec<Opinion>, String> {
    let mut out = vec![];
    for (i, (name, _, _)) in SOLVERS.iter().enumerate() {
        let o = run(i, script)?;
        let accepted = !o.contains("(error") && !o.contains("unsupported");
        let replies = smtref::read_all(&o).unwrap_or_default();
        let timed_out = o.contains("timeout") || o.contains("interrupted") || o.trim().is_empty();
        out.push(Opinion { solver: name, timed_out, accepted, output: o, replies });
    }
    Ok(out)
}

pub fn prelude() -> &'static str {
    "(set-option :produce-models true)\n(set-logic ALL)\n"
}
