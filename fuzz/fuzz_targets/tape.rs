#![no_main]
// choice-tape target: the same decoders and in-target oracles as the proptest runner; the property is
// selected with PV_FUZZ_PROP (C01, C05, C06, C07, C08, C09, C11, C12, C13, C16, C17, C19, C20, C04)
use libfuzzer_sys::fuzz_target;
fuzz_target!(|data: &[u8]| {
    pv::fuzz::tape(data);
});
