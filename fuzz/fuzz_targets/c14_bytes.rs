#![no_main]
// raw bytes -> SMT-LIB expression / command reader; oracle: an error or a well-typed result, never a
// panic outside the listed findings (C14 iii/iv)
use libfuzzer_sys::fuzz_target;
fuzz_target!(|data: &[u8]| {
    pv::fuzz::c14_bytes(data);
});
