#![no_main]
// raw bytes -> btor2 reader; oracle: clean rejection or a system passing the deep check (C18)
use libfuzzer_sys::fuzz_target;
fuzz_target!(|data: &[u8]| {
    pv::fuzz::c18_bytes(data);
});
